from .core import *  # noqa
from .core import _CTX  # noqa
