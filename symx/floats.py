"""Symbolic floats in three flavours (chosen per harness):

SymFInt  - integer-valued float represented by a SymInt (exact while |v| < 2^53; the interval
           guard of SymInt enforces a much smaller bound anyway).
SymReal  - z3 Real; float constants are converted exactly (Fraction(float)).  Stands in for
           IEEE arithmetic only together with an explicit perturbation budget in the harness,
           or where the property is stated in real arithmetic.
SymFP    - z3 Float64, round-to-nearest-even, bit-precise IEEE-754.
"""
import math as _math
from fractions import Fraction
import z3
from . import core
from .core import SymInt, SymBool, mkbool, Unsupported, ctx

RNE = z3.RNE()
F64 = z3.Float64()


class SymFloat:
    _symx_symbolic = True

    def __hash__(self):
        return 0x5F10A7

    def __float__(self):
        raise Unsupported("float() of a symbolic float")

    def __int__(self):
        raise Unsupported("int() of a symbolic float")

    def __index__(self):
        raise Unsupported("index of a symbolic float")

    def __repr__(self):
        return "<%s>" % type(self).__name__

    __str__ = __repr__

    def __format__(self, spec):
        return "<%s>" % type(self).__name__

    def __bool__(self):
        return bool(self != 0)


class OpaqueFloat:
    """A float whose value is not modelled; any arithmetic or comparison is Unsupported."""
    _symx_symbolic = True
    __hash__ = None

    def __init__(self, what):
        self.what = what

    def _no(self, *a, **k):
        raise Unsupported("use of unmodelled float value (%s)" % self.what)

    __add__ = __radd__ = __sub__ = __rsub__ = __mul__ = __rmul__ = __truediv__ = __rtruediv__ = _no
    __lt__ = __le__ = __gt__ = __ge__ = __eq__ = __ne__ = __neg__ = __abs__ = __float__ = __bool__ = _no

    def _symx_key(self):
        return ("opaque", id(self))


# --------------------------------------------------------------------------------------
class SymFInt(SymFloat):
    __slots__ = ("i",)
    __hash__ = SymFloat.__hash__

    def __init__(self, i):
        self.i = i      # SymInt or int

    def _symx_key(self):
        from .merge import _key
        return ("fi", _key(self.i))

    def _symx_concrete(self, m):
        return float(core._concrete(self.i, m))

    @staticmethod
    def _val(o):
        if isinstance(o, SymFInt):
            return o.i
        if isinstance(o, bool):
            return int(o)
        if isinstance(o, (int, SymInt)):
            return o
        if isinstance(o, float):
            if o != o or o in (float("inf"), float("-inf")) or o != int(o):
                return None
            return int(o)
        return None

    @staticmethod
    def _wrap(v):
        if isinstance(v, int):
            return float(v)
        return SymFInt(v)

    def __add__(self, o):
        v = self._val(o)
        if v is None:
            raise Unsupported("SymFInt + non-integer")
        return self._wrap(self.i + v)

    __radd__ = __add__

    def __sub__(self, o):
        v = self._val(o)
        if v is None:
            raise Unsupported("SymFInt - non-integer")
        return self._wrap(self.i - v)

    def __rsub__(self, o):
        v = self._val(o)
        if v is None:
            raise Unsupported("non-integer - SymFInt")
        return self._wrap(v - self.i)

    def __mul__(self, o):
        v = self._val(o)
        if v is None:
            raise Unsupported("SymFInt * non-integer")
        return self._wrap(self.i * v)

    __rmul__ = __mul__

    def __truediv__(self, o):
        # the quotient is not integer-valued: opaque, may only be passed to a stub
        return OpaqueFloat("SymFInt / %r" % (o,))

    def __rtruediv__(self, o):
        return OpaqueFloat("%r / SymFInt" % (o,))

    def __neg__(self):
        return self._wrap(-self.i)

    def __pos__(self):
        return self

    def __abs__(self):
        return self._wrap(abs(self.i))

    def _cmp(self, o, op):
        v = self._val(o)
        if v is None:
            if isinstance(o, float):
                # compare integer value with a non-integer constant
                fl = _math.floor(o)
                if op in ("lt", "le"):
                    return self.i <= fl
                if op in ("gt", "ge"):
                    return self.i > fl
                return op == "ne"
            return NotImplemented
        import operator
        return getattr(operator, op)(self.i, v)

    def __lt__(self, o):
        return self._cmp(o, "lt")

    def __le__(self, o):
        return self._cmp(o, "le")

    def __gt__(self, o):
        return self._cmp(o, "gt")

    def __ge__(self, o):
        return self._cmp(o, "ge")

    def __eq__(self, o):
        return self._cmp(o, "eq")

    def __ne__(self, o):
        return self._cmp(o, "ne")


# --------------------------------------------------------------------------------------
def rval(x):
    """Exact z3 Real of a python number."""
    if isinstance(x, bool):
        x = int(x)
    if isinstance(x, int):
        return z3.RealVal(x)
    if isinstance(x, float):
        if x != x or x in (float("inf"), float("-inf")):
            raise Unsupported("nan/inf in real arithmetic")
        fr = Fraction(x)
        return z3.RealVal(fr.numerator) / z3.RealVal(fr.denominator) if fr.denominator != 1 else z3.RealVal(fr.numerator)
    if isinstance(x, Fraction):
        return z3.RealVal(x.numerator) / z3.RealVal(x.denominator)
    raise TypeError(x)


_UF_MUL = z3.Function("real_mul", z3.RealSort(), z3.RealSort(), z3.RealSort())
_UF_DIV = z3.Function("real_div", z3.RealSort(), z3.RealSort(), z3.RealSort())


class SymReal(SymFloat):
    __slots__ = ("e",)
    __hash__ = SymFloat.__hash__

    def __init__(self, e):
        self.e = e
        c = core._CTX
        if c is not None and c.logic == "QF_BV":
            c.upgrade_solver()

    def _symx_key(self):
        return ("r", self.e.get_id())

    def _symx_concrete(self, m):
        v = m.eval(self.e, model_completion=True)
        try:
            return float(v.as_fraction())
        except Exception:
            return float(v.approx(20).as_fraction())

    @staticmethod
    def _e(o):
        if isinstance(o, SymReal):
            return o.e
        if isinstance(o, (int, float, Fraction)) and not isinstance(o, bool):
            return rval(o)
        if isinstance(o, bool):
            return rval(int(o))
        if isinstance(o, SymFInt):
            o = o.i
        if isinstance(o, SymInt):
            return z3.ToReal(z3.BV2Int(o.e, is_signed=True))
        return None

    def __add__(self, o):
        e = self._e(o)
        if e is None:
            return NotImplemented
        return SymReal(self.e + e)

    __radd__ = __add__

    def __sub__(self, o):
        e = self._e(o)
        if e is None:
            return NotImplemented
        return SymReal(self.e - e)

    def __rsub__(self, o):
        e = self._e(o)
        if e is None:
            return NotImplemented
        return SymReal(e - self.e)

    def __mul__(self, o):
        if isinstance(o, (int, float)) and not isinstance(o, bool) and o == 0:
            return 0.0
        e = self._e(o)
        if e is None:
            return NotImplemented
        if getattr(core._CTX, "real_mul_uf", False) and not isinstance(o, (int, float, Fraction)):
            # keep the theory linear: symbolic x symbolic products are an uninterpreted (commutative) function
            a, b = (self.e, e) if self.e.get_id() <= e.get_id() else (e, self.e)
            return SymReal(_UF_MUL(a, b))
        return SymReal(self.e * e)

    __rmul__ = __mul__

    def __truediv__(self, o):
        if isinstance(o, (int, float)) and not isinstance(o, bool):
            if o == 0:
                raise ZeroDivisionError("float division by zero")
            return SymReal(self.e / rval(o))
        e = self._e(o)
        if e is None:
            return NotImplemented
        if bool(mkbool(e == 0)):
            raise ZeroDivisionError("float division by zero")
        if getattr(core._CTX, "real_mul_uf", False):
            return SymReal(_UF_DIV(self.e, e))
        return SymReal(self.e / e)

    def __rtruediv__(self, o):
        e = self._e(o)
        if e is None:
            return NotImplemented
        if bool(mkbool(self.e == 0)):
            raise ZeroDivisionError("float division by zero")
        if getattr(core._CTX, "real_mul_uf", False):
            return SymReal(_UF_DIV(e, self.e))
        return SymReal(e / self.e)

    def __neg__(self):
        return SymReal(-self.e)

    def __pos__(self):
        return self

    def __round__(self, n=None):
        """round(x, n): contract model - a value within half a unit of the last kept decimal place of x."""
        if n is None:
            raise Unsupported("round(SymReal) to an int")
        c = core._CTX
        c.fresh_id += 1
        y = z3.Real("round#%d" % c.fresh_id)
        c._declare("round#%d" % c.fresh_id, y, "real", None, None)
        half = Fraction(1, 2 * 10 ** n)
        c.assume(SymBool(z3.And(y - self.e <= rval(half), self.e - y <= rval(half))))
        return SymReal(y)

    def __abs__(self):
        return SymReal(z3.If(self.e < 0, -self.e, self.e))

    def __pow__(self, n):
        if isinstance(n, int) and 0 <= n <= 8:
            r = SymReal(z3.RealVal(1))
            for _ in range(n):
                r = r * self
            return r
        raise Unsupported("SymReal ** %r" % (n,))

    def _cmp(self, o, op):
        e = self._e(o)
        if e is None:
            return NotImplemented
        a = self.e
        return mkbool({"lt": a < e, "le": a <= e, "gt": a > e, "ge": a >= e, "eq": a == e, "ne": a != e}[op])

    def __lt__(self, o):
        return self._cmp(o, "lt")

    def __le__(self, o):
        return self._cmp(o, "le")

    def __gt__(self, o):
        return self._cmp(o, "gt")

    def __ge__(self, o):
        return self._cmp(o, "ge")

    def __eq__(self, o):
        return self._cmp(o, "eq")

    def __ne__(self, o):
        return self._cmp(o, "ne")


def real_input(c, name, lo=None, hi=None):
    v = z3.Real(name)
    c._declare(name, v, "real", lo, hi)
    if lo is not None:
        c._assume_raw(v >= rval(lo))
    if hi is not None:
        c._assume_raw(v <= rval(hi))
    return SymReal(v)


# --------------------------------------------------------------------------------------
class SymFP(SymFloat):
    __slots__ = ("e",)
    __hash__ = SymFloat.__hash__

    def __init__(self, e):
        self.e = e
        c = core._CTX
        if c is not None and c.logic == "QF_BV":
            c.upgrade_solver()

    def _symx_key(self):
        return ("fp", self.e.get_id())

    def _symx_concrete(self, m):
        v = m.eval(self.e, model_completion=True)
        return float(eval(str(z3.simplify(z3.fpToReal(v)).as_fraction()))) if not (z3.is_fp_value(v) and (v.isNaN() or v.isInf())) else float("nan")

    @staticmethod
    def _e(o):
        if isinstance(o, SymFP):
            return o.e
        if isinstance(o, bool):
            o = int(o)
        if isinstance(o, float):
            return z3.FPVal(o, F64)
        if isinstance(o, int):
            return z3.FPVal(float(o), F64) if abs(o) < 2 ** 53 else z3.fpSignedToFP(RNE, z3.BitVecVal(o, 80), F64)
        if isinstance(o, SymFInt):
            o = o.i
        if isinstance(o, SymInt):
            return z3.fpSignedToFP(RNE, o.e, F64)
        return None

    def _bin(self, o, fn, swap=False):
        e = self._e(o)
        if e is None:
            return NotImplemented
        return SymFP(fn(RNE, e, self.e) if swap else fn(RNE, self.e, e))

    def __add__(self, o):
        return self._bin(o, z3.fpAdd)

    __radd__ = __add__

    def __sub__(self, o):
        return self._bin(o, z3.fpSub)

    def __rsub__(self, o):
        return self._bin(o, z3.fpSub, True)

    def __mul__(self, o):
        return self._bin(o, z3.fpMul)

    __rmul__ = __mul__

    def __truediv__(self, o):
        e = self._e(o)
        if e is None:
            return NotImplemented
        if bool(mkbool(z3.fpIsZero(e))):
            raise ZeroDivisionError("float division by zero")
        return SymFP(z3.fpDiv(RNE, self.e, e))

    def __rtruediv__(self, o):
        e = self._e(o)
        if e is None:
            return NotImplemented
        if bool(mkbool(z3.fpIsZero(self.e))):
            raise ZeroDivisionError("float division by zero")
        return SymFP(z3.fpDiv(RNE, e, self.e))

    def __neg__(self):
        return SymFP(z3.fpNeg(self.e))

    def __abs__(self):
        return SymFP(z3.fpAbs(self.e))

    def _cmp(self, o, op):
        e = self._e(o)
        if e is None:
            return NotImplemented
        a = self.e
        return mkbool({"lt": z3.fpLT(a, e), "le": z3.fpLEQ(a, e), "gt": z3.fpGT(a, e), "ge": z3.fpGEQ(a, e),
                       "eq": z3.fpEQ(a, e), "ne": z3.Not(z3.fpEQ(a, e))}[op])

    def __lt__(self, o):
        return self._cmp(o, "lt")

    def __le__(self, o):
        return self._cmp(o, "le")

    def __gt__(self, o):
        return self._cmp(o, "gt")

    def __ge__(self, o):
        return self._cmp(o, "ge")

    def __eq__(self, o):
        return self._cmp(o, "eq")

    def __ne__(self, o):
        return self._cmp(o, "ne")


def to_int(x):
    """int(x) for the module-level `int` shim: identity on SymInt, truncation for SymFP."""
    if isinstance(x, SymInt):
        return x
    if isinstance(x, SymFP):
        w = ctx().width
        bvx = z3.fpToSBV(z3.RTZ(), x.e, z3.BitVecSort(w))
        # value range unknown a priori: bound by the double range that fits the working width
        lim = 1 << (w - 2)
        if bool(mkbool(z3.Or(z3.fpIsNaN(x.e), z3.fpIsInf(x.e)))):
            raise ValueError("cannot convert float NaN/inf to integer")
        if bool(mkbool(z3.Or(z3.fpGEQ(x.e, z3.FPVal(float(lim), F64)), z3.fpLEQ(x.e, z3.FPVal(float(-lim), F64))))):
            raise Unsupported("int() of a float outside the working width")
        return core.mk(bvx, -lim, lim)
    if isinstance(x, SymFInt):
        return x.i
    if isinstance(x, SymFloat):
        raise Unsupported("int() of %s" % type(x).__name__)
    return int(x)


def int_truediv_fp(a, b):
    """python `a / b` for int/SymInt operands, bit-precise when both convert exactly."""
    return SymFP(z3.fpDiv(RNE, SymFP._e(a), SymFP._e(b)))


# --------------------------------------------------------------------------------------
def install_float_mode(c, mode):
    """Sets how merged concrete/symbolic floats are combined and how SymInt true division
    behaves in this context ('intbv' | 'real' | 'fp')."""
    c.float_mode = mode

    def fm(pairs):
        vals = [v for _, v in pairs]
        if mode == "intbv":
            ints = [SymFInt._val(v) if isinstance(v, (float, SymFInt)) else None for v in vals]
            if any(i is None for i in ints):
                return NotImplemented
            res = ints[-1]
            for (cd, _), i in zip(reversed(pairs[:-1]), reversed(ints[:-1])):
                res = core.ite(SymBool(cd), i, res)
            return SymFInt._wrap(res) if not isinstance(res, int) else float(res)
        if mode == "real":
            es = [SymReal._e(v) if isinstance(v, (float, int, SymReal, SymFInt)) and not isinstance(v, bool) else None for v in vals]
            if any(e is None for e in es):
                return NotImplemented
            res = es[-1]
            for (cd, _), e in zip(reversed(pairs[:-1]), reversed(es[:-1])):
                res = z3.If(cd, e, res)
            return SymReal(res)
        if mode == "fp":
            es = [SymFP._e(v) if isinstance(v, (float, int, SymFP)) and not isinstance(v, bool) else None for v in vals]
            if any(e is None for e in es):
                return NotImplemented
            res = es[-1]
            for (cd, _), e in zip(reversed(pairs[:-1]), reversed(es[:-1])):
                res = z3.If(cd, e, res)
            return SymFP(res)
        return NotImplemented
    c.float_merge = fm


def _int_truediv(self, o):
    m = getattr(ctx(), "float_mode", None)
    if m == "fp":
        return int_truediv_fp(self, o)
    if m == "real":
        return SymReal(SymReal._e(self)) / o
    raise Unsupported("true division of SymInt (no float mode installed)")


def _int_rtruediv(self, o):
    m = getattr(ctx(), "float_mode", None)
    if m == "fp":
        if bool(self == 0):
            raise ZeroDivisionError("division by zero")
        return int_truediv_fp(o, self)
    if m == "real":
        return o / SymReal(SymReal._e(self))
    raise Unsupported("true division by SymInt (no float mode installed)")


SymInt.__truediv__ = _int_truediv
SymInt.__rtruediv__ = _int_rtruediv


def _int_mul_float(orig):
    def f(self, o):
        if isinstance(o, float):
            m = getattr(ctx(), "float_mode", None)
            if m == "fp":
                return SymFP(SymFP._e(self)) * o
            if m == "real":
                return SymReal(SymReal._e(self)) * o
            if m == "intbv":
                return SymFInt(self) * o
        if isinstance(o, SymFloat):
            return o.__rmul__(self)
        return orig(self, o)
    return f


def _int_add_float(orig):
    def f(self, o):
        if isinstance(o, float):
            m = getattr(ctx(), "float_mode", None)
            if m == "fp":
                return SymFP(SymFP._e(self)) + o
            if m == "real":
                return SymReal(SymReal._e(self)) + o
            if m == "intbv":
                return SymFInt(self) + o
        if isinstance(o, SymFloat):
            return o.__radd__(self)
        return orig(self, o)
    return f


SymInt.__mul__ = _int_mul_float(SymInt.__mul__)
SymInt.__rmul__ = SymInt.__mul__
SymInt.__add__ = _int_add_float(SymInt.__add__)
SymInt.__radd__ = SymInt.__add__
_orig_sub = SymInt.__sub__
_orig_rsub = SymInt.__rsub__


def _int_sub(self, o):
    if isinstance(o, (float, SymFloat)):
        return (-o) + self if not isinstance(o, float) else _int_add_float(SymInt.__add__)(self, -o)
    return _orig_sub(self, o)


def _int_rsub(self, o):
    if isinstance(o, (float, SymFloat)):
        return o + (-self)
    return _orig_rsub(self, o)


SymInt.__sub__ = _int_sub
SymInt.__rsub__ = _int_rsub
