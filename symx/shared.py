"""Shared-state instrumentation for C16 (schedules) and C17 (histories).

* discovery: every module-level mutable container under a5.* and every mutable container held
  by a module-level singleton instance is found by walking the imported modules (not listed by hand);
* hooks: the containers are replaced by Hooked list/dict subclasses that log reads and writes with
  the current *line clock* (sys.settrace line events in frames of /repo/a5 = the preemption points);
* interference model (C16): a read at time t of a numeric cell last written by the running call at
  time w returns ite(OR_{w<k<=t} b_k, fresh, own) where b_k is a symbolic Boolean "another thread ran
  at preemption point k" and `fresh` an unconstrained value (arbitrary interfering write);
* entry-state model (C17): numeric cells start as fresh symbols (arbitrary residue of earlier calls).
"""
import sys
import types
import z3
from . import core
from .core import SymBool
from . import floats as sf


_MISSING = object()


class Clock:
    def __init__(self, repo_prefix):
        self.t = 0
        self.prefix = repo_prefix
        self.events = []     # (filename, lineno, funcname) per preemption point
        self.active = False

    def _local(self, frame, event, arg):
        if event == "line" and self.active:
            self.t += 1
            if len(self.events) < 100000:
                co = frame.f_code
                self.events.append((co.co_filename[len(self.prefix) + 1:], frame.f_lineno, co.co_name))
        return self._local

    def _global(self, frame, event, arg):
        if frame.f_code.co_filename.startswith(self.prefix):
            return self._local
        return None

    def start(self):
        self.t = 0
        self.events = []
        self.active = True
        sys.settrace(self._global)

    def stop(self):
        sys.settrace(None)
        self.active = False


class State:
    """bookkeeping shared by all hooked containers during one harness run."""

    def __init__(self, c, clock, mode, mutable=None):
        self.c = c
        self.clock = clock
        self.mode = mode          # "interfere" (C16) | "entry" (C17) | "plain"
        self.mutable = mutable    # names of containers some call writes at run time (None: all); constants are never havocked
        self.last_write = {}      # (container id, key) -> time of last own write
        self.windows = []         # reads that could observe an interfering write
        self.entry_reads = []     # reads of cells not yet written by this call (entry-state dependence)
        self.bvars = {}
        self.nfresh = 0
        self.writes = []
        self.published = []       # (name, object, snapshot, time): mutable objects stored into shared containers
        self.removals = []        # (name, time): entries removed from shared containers (cache not insert-only)

    def post_publication_mutations(self):
        out = []
        for name, obj, snap, t in self.published:
            cur = list(obj) if isinstance(obj, list) else dict(obj)
            if cur != snap:
                out.append((name, t))
        return out

    def b(self, k):
        v = self.bvars.get(k)
        if v is None:
            v = self.c.bool("preempt@%d" % k)
            self.bvars[k] = v
        return v

    def fresh(self, stem):
        self.nfresh += 1
        return sf.real_input(self.c, "%s#%d" % (stem, self.nfresh))


_STATE = None


def _numeric(v):
    return isinstance(v, (int, float, sf.SymFloat, core.SymInt)) and not isinstance(v, bool)


def _publish(st, cont, k, v):
    if isinstance(v, (list, dict)) and st is not None and st.clock.active:
        st.published.append(("%s[%r]" % (cont._symx_name, k), v, list(v) if isinstance(v, list) else dict(v), st.clock.t))


class HookedList(list):
    _symx_name = "?"

    def append(self, v):
        _publish(_STATE, self, len(self), v)
        list.append(self, v)

    def clear(self):
        st = _STATE
        if st is not None and st.clock.active and len(self):
            st.removals.append((self._symx_name, st.clock.t))
        list.clear(self)

    def pop(self, *a):
        st = _STATE
        if st is not None and st.clock.active:
            st.removals.append((self._symx_name, st.clock.t))
        return list.pop(self, *a)

    def __delitem__(self, k):
        st = _STATE
        if st is not None and st.clock.active:
            st.removals.append((self._symx_name, st.clock.t))
        list.__delitem__(self, k)

    def remove(self, v):
        st = _STATE
        if st is not None and st.clock.active:
            st.removals.append((self._symx_name, st.clock.t))
        list.remove(self, v)

    def insert(self, i, v):
        st = _STATE
        if st is not None and st.clock.active and i < len(self):
            st.removals.append((self._symx_name + " (reordered)", st.clock.t))
        list.insert(self, i, v)

    def sort(self, *a, **k):
        st = _STATE
        if st is not None and st.clock.active and len(self) > 1:
            st.removals.append((self._symx_name + " (sorted in place)", st.clock.t))
        list.sort(self, *a, **k)

    def reverse(self):
        st = _STATE
        if st is not None and st.clock.active and len(self) > 1:
            st.removals.append((self._symx_name + " (reversed in place)", st.clock.t))
        list.reverse(self)

    def __getitem__(self, k):
        v = list.__getitem__(self, k)
        st = _STATE
        if st is None or not st.clock.active or isinstance(k, slice):
            return v
        return _on_read(st, self, k, v)

    def __setitem__(self, k, v):
        st = _STATE
        if st is not None and st.clock.active and not isinstance(k, slice):
            st.last_write[(id(self), k)] = st.clock.t
            st.writes.append((self._symx_name, k, st.clock.t))
            _publish(st, self, k, v)
        list.__setitem__(self, k, v)

    def __iter__(self):
        for i in range(len(self)):
            yield self[i]


def _has_sym(k, depth=0):
    if isinstance(k, (core.SymInt, core.SymBool, sf.SymFloat)):
        return True
    if depth < 3 and isinstance(k, tuple):
        return any(_has_sym(x, depth + 1) for x in k)
    return False


def _keq(a, b):
    """key equality as python would decide it, with symbolic components compared by the solver (forks)."""
    if isinstance(a, tuple) and isinstance(b, tuple):
        if len(a) != len(b):
            return False
        for x, y in zip(a, b):
            if not _keq(x, y):
                return False
        return True
    if isinstance(a, tuple) != isinstance(b, tuple):
        return False
    try:
        return bool(a == b)
    except TypeError:
        return False


class HookedDict(dict):
    """dict whose lookups also work when the probe key or stored keys contain symbolic components: python's hashing would
    put a symbolic key and an equal concrete key into different buckets, so such lookups scan the stored keys and decide
    equality with the solver."""
    _symx_name = "?"

    def _find(self, k):
        if not _has_sym(k) and not getattr(self, "_symx_symkeys", False):
            return k if dict.__contains__(self, k) else _MISSING
        for sk in list(dict.keys(self)):
            if _keq(sk, k):
                return sk
        return _MISSING

    def __contains__(self, k):
        return self._find(k) is not _MISSING

    def __getitem__(self, k):
        sk = self._find(k)
        if sk is _MISSING:
            raise KeyError(k)
        v = dict.__getitem__(self, sk)
        st = _STATE
        if st is None or not st.clock.active:
            return v
        return _on_read(st, self, sk, v)

    def __setitem__(self, k, v):
        st = _STATE
        if st is not None and st.clock.active:
            st.last_write[(id(self), k)] = st.clock.t
            st.writes.append((self._symx_name, repr(k)[:40], st.clock.t))
            _publish(st, self, repr(k)[:40], v)
        if _has_sym(k):
            self._symx_symkeys = True
            sk = self._find(k)
            if sk is not _MISSING:
                k = sk
        dict.__setitem__(self, k, v)

    def clear(self):
        st = _STATE
        if st is not None and st.clock.active and len(self):
            st.removals.append((self._symx_name, st.clock.t))
        dict.clear(self)

    def pop(self, *a):
        st = _STATE
        if st is not None and st.clock.active:
            st.removals.append((self._symx_name, st.clock.t))
        return dict.pop(self, *a)

    def popitem(self):
        st = _STATE
        if st is not None and st.clock.active:
            st.removals.append((self._symx_name, st.clock.t))
        return dict.popitem(self)

    def __delitem__(self, k):
        st = _STATE
        if st is not None and st.clock.active:
            st.removals.append((self._symx_name, st.clock.t))
        dict.__delitem__(self, k)

    def get(self, k, d=None):
        sk = self._find(k)
        if sk is _MISSING:
            return d
        return self[sk]

    def setdefault(self, k, d=None):
        if k in self:
            return self[k]
        self[k] = d
        return d


def _on_read(st, cont, k, v):
    if not _numeric(v):
        return v          # object-valued cells are caches: key-determined content is C17's obligation
    t = st.clock.t
    w = st.last_write.get((id(cont), k))
    name = "%s[%r]" % (cont._symx_name, k)
    if st.mutable is not None and cont._symx_name not in st.mutable and w is None:
        return v          # a table nobody writes after import: no residue, no interference
    if w is None:
        # not written by this call yet: residue of earlier calls
        st.entry_reads.append((name, t))
        if st.mode in ("entry", "interfere"):
            e = getattr(cont, "_symx_entry", None)
            if e is None:
                e = cont._symx_entry = {}
            if k not in e:
                e[k] = st.fresh("entry:" + name)
            v = e[k]
            if st.mode == "entry":
                return v
            w = 0
        else:
            return v
    if t <= w:
        return v
    st.windows.append((name, w, t))
    if st.mode != "interfere":
        return v
    cond = core.Or(*[st.b(k2) for k2 in range(w + 1, t + 1)])
    fr = st.fresh("interfering-write:" + name)
    if isinstance(cond, bool):
        return fr if cond else v
    ve = sf.SymReal._e(v)
    return sf.SymReal(z3.If(cond.e, fr.e, ve))


# --------------------------------------------------------------------------------------
def discover(pkg_prefix="a5"):
    """[(owner description, setter, container)] for every module-level mutable list/dict and every
    list/dict attribute of module-level instances of classes defined in the package."""
    found = []
    seen = set()
    for modname, mod in sorted(sys.modules.items()):
        if mod is None or not (modname == pkg_prefix or modname.startswith(pkg_prefix + ".")):
            continue
        for name, val in sorted(vars(mod).items()):
            if name.startswith("__"):
                continue
            if isinstance(val, (list, dict)) and not isinstance(val, (HookedList, HookedDict)) or isinstance(val, (HookedList, HookedDict)):
                if id(val) in seen:
                    continue
                seen.add(id(val))
                found.append(("%s.%s" % (modname, name), ("mod", mod, name), val))
            elif hasattr(val, "__dict__") and not isinstance(val, (type, types.ModuleType, types.FunctionType)) \
                    and type(val).__module__.startswith(pkg_prefix):
                _walk_instance("%s.%s" % (modname, name), val, found, seen, 0)
        # mutable default arguments of the module's functions and methods are shared between all calls
        funcs = []
        for name, val in sorted(vars(mod).items()):
            if isinstance(val, types.FunctionType) and val.__module__ == modname:
                funcs.append(("%s.%s" % (modname, name), val))
            elif isinstance(val, type) and val.__module__ == modname:
                for mname, mval in sorted(vars(val).items()):
                    if isinstance(mval, types.FunctionType):
                        funcs.append(("%s.%s.%s" % (modname, name, mname), mval))
        for fname, fn in funcs:
            for i, d in enumerate(fn.__defaults__ or ()):
                if isinstance(d, (list, dict)) and id(d) not in seen:
                    seen.add(id(d))
                    found.append(("%s.__defaults__[%d]" % (fname, i), ("default", fn, i), d))
    return found


def _walk_instance(path, obj, found, seen, depth):
    if id(obj) in seen or depth > 3:
        return
    seen.add(id(obj))
    for an, av in sorted(vars(obj).items()):
        if isinstance(av, (list, dict)):
            if id(av) in seen:
                continue
            seen.add(id(av))
            found.append(("%s.%s" % (path, an), ("attr", obj, an), av))
        elif hasattr(av, "__dict__") and not isinstance(av, (type, types.ModuleType, types.FunctionType)) \
                and type(av).__module__.startswith("a5"):
            _walk_instance("%s.%s" % (path, an), av, found, seen, depth + 1)


def hook_all(found):
    """replace each discovered container by a hooked copy (same content); returns undo()."""
    undo = []
    hooked = []
    for name, (kind, owner, attr), val in found:
        if isinstance(val, (HookedList, HookedDict)):
            val._symx_name = name
            hooked.append((name, val))
            continue
        h = HookedList(val) if isinstance(val, list) else HookedDict(val)
        h._symx_name = name
        # every module that imported the same object by name must see the hooked one
        for modname, mod in list(sys.modules.items()):
            if mod is None or not (modname == "a5" or modname.startswith("a5.")):
                continue
            for n2, v2 in list(vars(mod).items()):
                if v2 is val:
                    setattr(mod, n2, h)
                    undo.append((mod, n2, val))
        if kind == "attr":
            setattr(owner, attr, h)
            undo.append((owner, attr, val))
        elif kind == "default":
            ds = list(owner.__defaults__)
            ds[attr] = h
            owner.__defaults__ = tuple(ds)
            undo.append(("default", owner, attr, val))
        hooked.append((name, h))

    def undo_all():
        for u in reversed(undo):
            if u[0] == "default":
                _, fn, i, val = u
                ds = list(fn.__defaults__)
                ds[i] = val
                fn.__defaults__ = tuple(ds)
            else:
                owner, attr, val = u
                setattr(owner, attr, val)
    return hooked, undo_all


class AttrView:
    """numeric instance attributes of a module-level singleton, seen as a keyed container."""

    def __init__(self, name):
        self._symx_name = name
        self._symx_entry = None


_VIEWS = {}


def hook_instances():
    """swap the class of every module-level singleton of the package for a subclass that logs reads/writes of its
    numeric instance attributes with the line clock (same interference / entry-state model as the containers)."""
    from checks import discover as _disc
    undo = []
    views = []
    for path, obj in _disc.instances():
        cls = type(obj)
        if getattr(cls, "_symx_hooked", False) or isinstance(obj, (HookedList, HookedDict)):
            continue
        view = _VIEWS.setdefault(id(obj), AttrView(path))
        views.append(view)

        def __setattr__(self, name, value, _view=view):
            st = _STATE
            if st is not None and st.clock.active and _numeric(value):
                st.last_write[(id(_view), name)] = st.clock.t
                st.writes.append((_view._symx_name, name, st.clock.t))
            object.__setattr__(self, name, value)

        def __getattribute__(self, name, _view=view):
            v = object.__getattribute__(self, name)
            st = _STATE
            if st is None or not st.clock.active or name[:2] == "__" or not _numeric(v):
                return v
            if name not in object.__getattribute__(self, "__dict__"):
                return v
            return _on_read(st, _view, name, v)
        try:
            sub = type("Hooked" + cls.__name__, (cls,), {"__setattr__": __setattr__, "__getattribute__": __getattribute__,
                                                         "_symx_hooked": True, "__module__": cls.__module__})
            obj.__class__ = sub
            undo.append((obj, cls))
        except TypeError:
            continue

    def undo_all():
        for obj, cls in undo:
            try:
                obj.__class__ = cls
            except TypeError:
                pass
    return views, undo_all


def snapshot_state():
    """shallow snapshot of every discovered shared container and of the instance attributes of the package's
    module-level singletons, so that a symbolic run cannot leave proxies behind in real shared state."""
    from checks import discover as _disc
    snap = []
    for _, _, val in discover():
        snap.append(("c", val, list(val) if isinstance(val, list) else dict(val)))
    for _, obj in _disc.instances():
        snap.append(("i", obj, dict(object.__getattribute__(obj, "__dict__"))))
    return snap


def restore_state(snap):
    for kind, obj, saved in snap:
        if kind == "c":
            if isinstance(obj, list):
                list.__init__(obj, saved) if False else obj.__setitem__(slice(None), saved) if not isinstance(obj, HookedList) else list.__setitem__(obj, slice(None), saved)
            else:
                dict.clear(obj)
                dict.update(obj, saved)
        else:
            d = object.__getattribute__(obj, "__dict__")
            d.clear()
            d.update(saved)


def begin(c, clock, mode, mutable=None):
    global _STATE
    _STATE = State(c, clock, mode, mutable)
    return _STATE


def end():
    global _STATE
    _STATE = None
