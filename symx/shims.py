"""Module-namespace shims for builtins/libm that would concretise a proxy at a C-level boundary.
Each shim is a *contract model* (listed in the evidence of the check that installs it)."""
import math as _math
import z3
from . import core
from .core import SymInt, Unsupported, ctx, mkbool
from . import floats as sf


def range_(*args):
    """range() with symbolic bounds: the number of elements is concretised (forking over the feasible
    lengths, decided by the solver), the elements stay symbolic."""
    if all(isinstance(a, int) for a in args):
        return range(*args)
    if len(args) == 1:
        start, stop, step = 0, args[0], 1
    elif len(args) == 2:
        start, stop, step = args[0], args[1], 1
    else:
        start, stop, step = args
    if not isinstance(step, int):
        step = step.__index__()
    if step == 0:
        raise ValueError("range() arg 3 must not be zero")
    if step > 0:
        n = (stop - start + (step - 1)) // step if not isinstance(stop - start, int) else max(0, (stop - start + step - 1) // step)
    else:
        d = start - stop
        n = (d + (-step - 1)) // (-step) if not isinstance(d, int) else max(0, (d - step - 1) // (-step))
    if isinstance(n, SymInt):
        if bool(n <= 0):
            return []
        n = n.__index__()
    n = max(0, n)
    if n > 100000:
        raise Unsupported("symbolic range with %d elements" % n)
    return [start + k * step for k in range(n)]


def _bitlen(n):
    """fork on the bit length of a SymInt n >= 1."""
    lo, hi = max(1, n.lo).bit_length(), n.hi.bit_length()
    for L in range(lo, hi + 1):
        if L == hi or bool(n < (1 << L)):
            return L
    return hi


def _log_model(n, b):
    """float value of log(n)/log(2^b) for a SymInt n: an over-approximating contract.
    With L = bit_length(n): the result lies in [(L-1)/b - 1e-9, L/b + 1e-9]; for n not within a relative 2^-40
    of a power of two it is at least 1e-13 away from both ends (true distance > 1e-12, float error < 1e-14)."""
    c = ctx()
    if n.lo <= 0:
        if bool(n <= 0):
            raise ValueError("math domain error")
        n = core.refine(n, 1, n.hi)
        if isinstance(n, int):
            return _math.log2(n) / b
    L = _bitlen(n)
    c.fresh_id += 1
    y = z3.FP("log#%d" % c.fresh_id, sf.F64)
    c._declare("log#%d" % c.fresh_id, y, "fp", None, None)
    lo_v, hi_v = (L - 1) / b, L / b
    cons = [z3.fpGEQ(y, z3.FPVal(lo_v - 1e-9, sf.F64)), z3.fpLEQ(y, z3.FPVal(hi_v + 1e-9, sf.F64))]
    if L >= 2:
        if L <= 41:
            interior = n.e != core.bv(1 << (L - 1))
            not_top = z3.BoolVal(True)
        else:
            interior = z3.And(n.e >= core.bv((1 << (L - 1)) + (1 << (L - 41))), n.e <= core.bv((1 << L) - (1 << (L - 40))))
            not_top = n.e <= core.bv((1 << L) - (1 << (L - 40)))
        cons.append(z3.Implies(interior, z3.And(z3.fpGEQ(y, z3.FPVal(lo_v + 1e-13, sf.F64)),
                                                z3.fpLEQ(y, z3.FPVal(hi_v - 1e-13, sf.F64)))))
        cons.append(z3.Implies(not_top, z3.fpLT(y, z3.FPVal(hi_v, sf.F64))))
        if b == 1:
            cons.append(z3.Implies(n.e == core.bv(1 << (L - 1)), z3.fpEQ(y, z3.FPVal(float(L - 1), sf.F64))))
    else:
        cons.append(z3.fpEQ(y, z3.FPVal(0.0, sf.F64)))
    out = sf.SymFP(y)
    c.assume(core.SymBool(z3.And(*cons)))
    return out


class IntMath:
    """`math` as seen by the integer-kernel modules: log/log2/floor/ceil/trunc of proxies are modelled,
    everything else delegates to the real module (and is Unsupported on proxies)."""

    def log2(self, x):
        if isinstance(x, SymInt):
            return _log_model(x, 1)
        return _math.log2(x)

    def log(self, x, base=None):
        if isinstance(x, SymInt):
            if base is None:
                raise Unsupported("natural logarithm of a SymInt")
            if isinstance(base, int) and base > 1 and base & (base - 1) == 0:
                return _log_model(x, base.bit_length() - 1)
            raise Unsupported("log of a SymInt to base %r" % (base,))
        return _math.log(x) if base is None else _math.log(x, base)

    def floor(self, x):
        if isinstance(x, sf.SymFP):
            w = ctx().width
            return core.mk(z3.fpToSBV(z3.RTN(), x.e, z3.BitVecSort(w)), -(1 << (w - 2)), 1 << (w - 2))
        if isinstance(x, (SymInt, int)):
            return x
        return _math.floor(x)

    def ceil(self, x):
        if isinstance(x, sf.SymFP):
            w = ctx().width
            return core.mk(z3.fpToSBV(z3.RTP(), x.e, z3.BitVecSort(w)), -(1 << (w - 2)), 1 << (w - 2))
        if isinstance(x, (SymInt, int)):
            return x
        return _math.ceil(x)

    def trunc(self, x):
        if isinstance(x, sf.SymFP):
            return sf.to_int(x)
        if isinstance(x, (SymInt, int)):
            return x
        return _math.trunc(x)

    def sqrt(self, x):
        if isinstance(x, sf.SymFP):
            return sf.SymFP(z3.fpSqrt(sf.RNE, x.e))
        if isinstance(x, SymInt):
            return sf.SymFP(z3.fpSqrt(sf.RNE, sf.SymFP._e(x)))
        return _math.sqrt(x)

    def __getattr__(self, name):
        f = getattr(_math, name)
        if not callable(f):
            return f

        def g(*a):
            if any(isinstance(x, (SymInt, sf.SymFloat)) for x in a):
                raise Unsupported("math.%s of a symbolic value" % name)
            return f(*a)
        return g


INT_MATH = IntMath()


class _IntMeta(type):
    def __instancecheck__(cls, x):
        return isinstance(x, (int, SymInt))


def make_int_shim(model):
    """a stand-in for the builtin `int` in a module namespace: calling it applies `model`; class
    attributes (from_bytes, ...) are the real ones and reject proxies (-> Unsupported via proxy_artifact)."""
    class IntShim(int, metaclass=_IntMeta):
        def __new__(cls, *a, **k):
            return model(*a, **k)
    IntShim.__name__ = "int"
    return IntShim


INT = make_int_shim(lambda x=0, base=None: sf.to_int(x) if base is None else int(x, base))


def install_int_shims(module):
    """int(), range(), math for an integer-kernel module (idempotent)."""
    module.int = INT
    module.range = range_
    module.math = INT_MATH
