"""symx core: symbolic proxies (SymInt / SymBool), path exploration by re-execution,
function-level merging.  The repository's real functions are executed by CPython with these
proxies as inputs; z3 decides feasibility of branches and the final obligations.

Soundness device for Python ints vs. bit-vectors: every SymInt carries a sound interval
[lo, hi] and known-bits (pm = bits that may be one, ko = bits known to be one; only
meaningful for lo >= 0).  Any result whose interval does not fit the signed working width
raises Unsupported, so bit-vector arithmetic provably coincides with Python's unbounded
arithmetic on everything that is executed.
"""
import time
import z3

DEFAULT_WIDTH = 72


class Unsupported(BaseException):
    """Construct outside the modelled fragment -> inconclusive, never an alarm.
    (BaseException so that `except Exception` in harnesses / the code under test cannot swallow it.)"""


class Inconclusive(BaseException):
    """Budget exhausted / solver unknown."""


class PathAbort(BaseException):
    """Abort the current path (infeasible assumption)."""


_CTX = None


def ctx():
    if _CTX is None:
        raise RuntimeError("no active symx context")
    return _CTX


def _bitlen_mask(hi):
    return (1 << hi.bit_length()) - 1 if hi > 0 else 0


# --------------------------------------------------------------------------------------
# SymBool
# --------------------------------------------------------------------------------------
class SymBool:
    __slots__ = ("e",)

    def __init__(self, e):
        self.e = e

    def __bool__(self):
        return ctx().branch(self.e)

    def _lift(self, o):
        if isinstance(o, SymBool):
            return o.e
        if isinstance(o, bool):
            return z3.BoolVal(o)
        return None

    def __eq__(self, o):
        oe = self._lift(o)
        if oe is None:
            return NotImplemented
        return mkbool(self.e == oe)

    def __ne__(self, o):
        oe = self._lift(o)
        if oe is None:
            return NotImplemented
        return mkbool(z3.Xor(self.e, oe))

    __hash__ = None

    def __and__(self, o):
        oe = self._lift(o)
        if oe is None:
            return NotImplemented
        return mkbool(z3.And(self.e, oe))

    __rand__ = __and__

    def __or__(self, o):
        oe = self._lift(o)
        if oe is None:
            return NotImplemented
        return mkbool(z3.Or(self.e, oe))

    __ror__ = __or__

    def __xor__(self, o):
        oe = self._lift(o)
        if oe is None:
            return NotImplemented
        return mkbool(z3.Xor(self.e, oe))

    __rxor__ = __xor__

    def __invert__(self):
        return mkbool(z3.Not(self.e))

    def __repr__(self):
        return "<SymBool>"

    __str__ = __repr__

    def __format__(self, spec):
        return "<SymBool>"


_SIMP = {}


def _simplify(e):
    i = e.get_id()
    r = _SIMP.get(i)
    if r is None or not r[0].eq(e):
        r = (e, z3.simplify(e))
        if len(_SIMP) > 200000:
            _SIMP.clear()
        _SIMP[i] = r
    return r[1]


def mkbool(e):
    """Return a python bool when the expression simplifies to a constant."""
    s = _simplify(e)
    if z3.is_true(s):
        return True
    if z3.is_false(s):
        return False
    return SymBool(s)


def bexpr(b):
    """z3 expression of a bool / SymBool."""
    if isinstance(b, SymBool):
        return b.e
    if isinstance(b, bool):
        return z3.BoolVal(b)
    if isinstance(b, z3.BoolRef):
        return b
    raise TypeError("not a boolean: %r" % (b,))


def And(*bs):
    return mkbool(z3.And(*[bexpr(b) for b in bs])) if bs else True


def Or(*bs):
    return mkbool(z3.Or(*[bexpr(b) for b in bs])) if bs else False


def Not(b):
    if isinstance(b, bool):
        return not b
    return mkbool(z3.Not(bexpr(b)))


def Implies(a, b):
    return mkbool(z3.Implies(bexpr(a), bexpr(b)))


def Iff(a, b):
    return mkbool(bexpr(a) == bexpr(b))


# --------------------------------------------------------------------------------------
# Sign values: SymInts known to be in {-1, +1} are kept in a canonical form (a parity over a
# *set* of boolean atoms), so that products cancel syntactically: (x*y)*y is the same term as x.
# This is an exact representation, not an abstraction.
# --------------------------------------------------------------------------------------
_ATOMS = {}


def _atom(b):
    """canonical (neg, atom id) of a non-constant z3 Bool."""
    neg = False
    while z3.is_not(b):
        b = b.arg(0)
        neg = not neg
    i = b.get_id()
    _ATOMS[i] = b
    return neg, i


_SIGN_BOOL = {}


def _sign_bool(sg):
    """z3 Bool 'value == -1' of a sign descriptor (cached; canonical: atoms in id order)."""
    r = _SIGN_BOOL.get(sg)
    if r is not None:
        return r
    neg, atoms = sg
    pos = _SIGN_BOOL.get((False, atoms))
    if pos is None:
        ids = sorted(atoms)
        pos = _ATOMS[ids[0]]
        for i in ids[1:]:
            pos = z3.Xor(pos, _ATOMS[i])
        _SIGN_BOOL[(False, atoms)] = pos
    r = z3.Not(pos) if neg else pos
    _SIGN_BOOL[sg] = r
    return r


def mksign(neg, atoms):
    if not atoms:
        return -1 if neg else 1
    sg = (bool(neg), frozenset(atoms))
    x = SymInt(z3.If(_sign_bool(sg), bv(-1), bv(1)), -1, 1)
    x.sg = sg
    return x


def _sg_of(x):
    """sign descriptor of an int in {-1,1} or a sign SymInt, else None."""
    if isinstance(x, SymInt):
        return x.sg
    if isinstance(x, int) and not isinstance(x, bool):
        if x == 1:
            return (False, frozenset())
        if x == -1:
            return (True, frozenset())
    return None


def _sg_mul(a, b):
    return (a[0] != b[0], a[1] ^ b[1])


def _sg_is_neg_bool(sg):
    """python bool / z3 Bool for 'value == -1'."""
    if not sg[1]:
        return sg[0]
    return _sign_bool(sg)


# --------------------------------------------------------------------------------------
# SymInt
# --------------------------------------------------------------------------------------
class SymInt:
    """Bit-vector of ctx().width bits interpreted signed, with sound interval/known bits."""
    __slots__ = ("e", "lo", "hi", "pm", "ko", "pinned", "sg", "ss")

    def __init__(self, e, lo, hi, pm=None, ko=0, pinned=False):
        self.sg = None      # sign value: (neg, frozenset(atom ids)); value = -1 iff neg xor XOR(atoms)
        self.ss = None      # sum of two sign values: (sg_a, sg_b)
        self.e = e
        self.lo = lo
        self.hi = hi
        if lo >= 0:
            m = _bitlen_mask(hi)
            pm = m if pm is None else (pm & m)
            if pm < hi:
                self.hi = hi = pm
            if ko > lo:
                self.lo = lo = ko
        else:
            pm = None
            ko = 0
        self.pm = pm
        self.ko = ko
        self.pinned = pinned

    # ---- helpers
    @staticmethod
    def _w():
        return ctx().width

    def __hash__(self):
        return 0x5CA1AB1E

    def __repr__(self):
        # unique per term, so that strings built from different symbolic values never compare equal
        return "<SymInt#%d>" % self.e.get_id()

    __str__ = __repr__

    def __format__(self, spec):
        return "<SymInt#%d>" % self.e.get_id()

    def __index__(self):
        return ctx().concretize(self)

    def __bool__(self):
        r = self != 0
        return bool(r)

    def __int__(self):
        raise Unsupported("int(SymInt) would concretise; shim `int` in the module namespace")

    def __float__(self):
        raise Unsupported("float(SymInt)")

    # ---- arithmetic
    def __add__(self, o):
        o = coerce(o)
        if o is None:
            return NotImplemented
        if isinstance(o, int):
            if o == 0:
                return self
            lo, hi = self.lo + o, self.hi + o
            if o > 0 and self.lo >= 0 and (self.pm & o) == 0:
                return mk(self.e | bv(o), lo, hi, self.pm | o, self.ko | o)
            r = mk(self.e + bv(o), lo, hi)
            if self.sg is not None and o in (1, -1) and isinstance(r, SymInt):
                r.ss = (self.sg, _sg_of(o))
            return r
        lo, hi = self.lo + o.lo, self.hi + o.hi
        if self.lo >= 0 and o.lo >= 0 and (self.pm & o.pm) == 0:
            return mk(self.e | o.e, lo, hi, self.pm | o.pm, self.ko | o.ko)
        r = mk(self.e + o.e, lo, hi)
        if self.sg is not None and o.sg is not None and isinstance(r, SymInt):
            r.ss = (self.sg, o.sg)
        return r

    __radd__ = __add__

    def __neg__(self):
        if self.sg is not None:
            return mksign(not self.sg[0], self.sg[1])
        return mk(-self.e, -self.hi, -self.lo)

    def __pos__(self):
        return self

    def __abs__(self):
        if self.lo >= 0:
            return self
        if self.hi <= 0:
            return -self
        return mk(z3.If(self.e < 0, -self.e, self.e), 0, max(-self.lo, self.hi))

    def __sub__(self, o):
        o = coerce(o)
        if o is None:
            return NotImplemented
        if isinstance(o, int):
            if o == 0:
                return self
            return mk(self.e - bv(o), self.lo - o, self.hi - o)
        return mk(self.e - o.e, self.lo - o.hi, self.hi - o.lo)

    def __rsub__(self, o):
        o = coerce(o)
        if o is None:
            return NotImplemented
        if isinstance(o, int):
            return mk(bv(o) - self.e, o - self.hi, o - self.lo)
        return o.__sub__(self)

    def __mul__(self, o):
        o = coerce(o)
        if o is None:
            return NotImplemented
        if isinstance(o, int):
            if o == 0:
                return 0
            if o == 1:
                return self
            if o == -1:
                return -self
            c = [self.lo * o, self.hi * o]
            if o > 0 and (o & (o - 1)) == 0 and self.lo >= 0:
                k = o.bit_length() - 1
                return mk(self.e << k, min(c), max(c), self.pm << k, self.ko << k)
            if o > 0 and self.lo >= 0:
                nb = max(c).bit_length() + 1
                return mk(_narrow_apply(lambda a: a * z3.BitVecVal(o, a.size()), nb, self.e), min(c), max(c))
            return mk(self.e * bv(o), min(c), max(c))
        # symbolic x symbolic: sign values multiply canonically
        if self.sg is not None and o.sg is not None:
            return mksign(*_sg_mul(self.sg, o.sg))
        # otherwise expand over the operand with the smaller interval
        a, b = self, o
        if (a.hi - a.lo) < (b.hi - b.lo):
            a, b = b, a
        if b.hi - b.lo > 8:
            if ctx().allow_mul:
                c = [a.lo * b.lo, a.lo * b.hi, a.hi * b.lo, a.hi * b.hi]
                if a.lo >= 0 and b.lo >= 0:
                    return mk(_narrow_apply(lambda x, y: x * y, max(c).bit_length() + 1, a.e, b.e), min(c), max(c))
                return mk(a.e * b.e, min(c), max(c))
            raise Unsupported("symbolic x symbolic multiplication with wide operands")
        res = None
        for v in range(b.hi, b.lo - 1, -1):
            term = a * v
            res = term if res is None else ite(b == v, term, res)
        return res

    __rmul__ = __mul__

    def _divmod_const(self, d):
        if d <= 0:
            raise Unsupported("division by non-positive constant")
        if self.lo >= 0:
            if d & (d - 1) == 0:
                k = d.bit_length() - 1
                q = mk(z3.LShR(self.e, k), self.lo >> k, self.hi >> k, self.pm >> k, self.ko >> k)
                r = mk(self.e & bv(d - 1), 0, min(self.hi, d - 1), self.pm & (d - 1), self.ko & (d - 1))
                return q, r
            if self.hi < d:
                return 0, self
            nb = max(self.hi.bit_length(), d.bit_length()) + 1
            q = mk(_narrow_apply(lambda a: z3.UDiv(a, z3.BitVecVal(d, a.size())), nb, self.e), self.lo // d, self.hi // d)
            r = mk(_narrow_apply(lambda a: z3.URem(a, z3.BitVecVal(d, a.size())), nb, self.e), 0, d - 1)
            return q, r
        # floor semantics for possibly negative dividend
        bd = bv(d)
        q0 = z3.SDiv(self.e, bd) if hasattr(z3, "SDiv") else self.e / bd
        r0 = z3.SRem(self.e, bd)
        adj = r0 < 0
        q = mk(z3.If(adj, q0 - 1, q0), self.lo // d, self.hi // d)
        r = mk(z3.If(adj, r0 + bd, r0), 0, d - 1)
        return q, r

    def __floordiv__(self, o):
        o = coerce(o)
        if o is None:
            return NotImplemented
        if isinstance(o, int):
            return self._divmod_const(o)[0]
        if self.lo >= 0 and o.lo >= 1:
            nb = max(self.hi.bit_length(), o.hi.bit_length()) + 1
            return mk(_narrow_apply(z3.UDiv, nb, self.e, o.e), self.lo // o.hi, self.hi // o.lo)
        raise Unsupported("symbolic floor division with possibly non-positive operands")

    def __rfloordiv__(self, o):
        o = coerce(o)
        if isinstance(o, int) and o >= 0 and self.lo >= 1:
            return mk(z3.UDiv(bv(o), self.e), o // self.hi, o // self.lo)
        raise Unsupported("rfloordiv")

    def __mod__(self, o):
        o = coerce(o)
        if o is None:
            return NotImplemented
        if isinstance(o, int):
            return self._divmod_const(o)[1]
        if self.lo >= 0 and o.lo >= 1:
            nb = max(self.hi.bit_length(), o.hi.bit_length()) + 1
            return mk(_narrow_apply(z3.URem, nb, self.e, o.e), 0, min(self.hi, o.hi - 1))
        raise Unsupported("symbolic modulo with possibly non-positive operands")

    def __rmod__(self, o):
        o = coerce(o)
        if isinstance(o, int) and o >= 0 and self.lo >= 1:
            return mk(z3.URem(bv(o), self.e), 0, min(o, self.hi - 1))
        raise Unsupported("rmod")

    def __divmod__(self, o):
        return (self // o, self % o)

    def __truediv__(self, o):
        raise Unsupported("true division of SymInt (float result)")

    def __rtruediv__(self, o):
        raise Unsupported("true division by SymInt (float result)")

    def __pow__(self, o):
        if isinstance(o, int) and 0 <= o <= 4:
            r = 1
            for _ in range(o):
                r = r * self
            return r
        raise Unsupported("SymInt ** x")

    def __rpow__(self, o):
        # base ** self for a power-of-two base -> shift
        if isinstance(o, int) and o > 1 and (o & (o - 1)) == 0:
            x = self
            if x.lo < 0:
                if bool(x < 0):
                    raise Unsupported("c ** negative SymInt (float result)")
                x = refine(x, 0, x.hi)
                if isinstance(x, int):
                    return o ** x
            k = o.bit_length() - 1
            return SymInt._shl_const_base(1, x * k)
        raise Unsupported("c ** SymInt for non power-of-two c")

    @staticmethod
    def _shl_const_base(c, amt):
        if isinstance(amt, int):
            return c << amt
        if amt.lo < 0:
            raise ValueError("negative shift count")  # mirrors Python on the feasible side only
        lo, hi = c << amt.lo, c << amt.hi
        return mk(bv(c) << amt.e, lo, hi)

    def __lshift__(self, o):
        o = coerce(o)
        if o is None:
            return NotImplemented
        if isinstance(o, int):
            if o < 0:
                raise ValueError("negative shift count")
            if o == 0:
                return self
            if self.lo >= 0:
                return mk(self.e << o, self.lo << o, self.hi << o, self.pm << o, self.ko << o)
            return mk(self.e << o, self.lo << o, self.hi << o)
        if o.lo < 0:
            if bool(o < 0):
                raise ValueError("negative shift count")
            o = refine(o, 0, o.hi)
        c = [self.lo << o.lo, self.lo << o.hi, self.hi << o.lo, self.hi << o.hi]
        return mk(self.e << o.e, min(c), max(c))

    def __rlshift__(self, o):
        o = coerce(o)
        if isinstance(o, int):
            if self.lo < 0:
                if bool(self < 0):
                    raise ValueError("negative shift count")
                return SymInt._shl_const_base(o, refine(self, 0, self.hi))
            if o >= 0:
                return SymInt._shl_const_base(o, self)
        raise Unsupported("rlshift")

    def __rshift__(self, o):
        o = coerce(o)
        if o is None:
            return NotImplemented
        if isinstance(o, int):
            if o < 0:
                raise ValueError("negative shift count")
            if o == 0:
                return self
            if self.lo >= 0:
                e = self.e
                # peephole: (x >> a) >> b == x >> (a + b), keeps equal values syntactically equal
                if z3.is_app_of(e, z3.Z3_OP_BLSHR) and z3.is_bv_value(e.arg(1)):
                    a = e.arg(1).as_long()
                    if a + o < e.size():
                        return mk(z3.LShR(e.arg(0), a + o), self.lo >> o, self.hi >> o, self.pm >> o, self.ko >> o)
                return mk(z3.LShR(e, o), self.lo >> o, self.hi >> o, self.pm >> o, self.ko >> o)
            return mk(self.e >> o, self.lo >> o, self.hi >> o)
        if o.lo < 0:
            if bool(o < 0):
                raise ValueError("negative shift count")
            o = refine(o, 0, o.hi)
        c = [self.lo >> o.lo, self.lo >> o.hi, self.hi >> o.lo, self.hi >> o.hi]
        return mk(self.e >> o.e, min(c), max(c))

    def __rrshift__(self, o):
        o = coerce(o)
        if isinstance(o, int) and o >= 0 and self.lo >= 0:
            return mk(z3.LShR(bv(o), self.e), o >> self.hi, o >> self.lo)
        raise Unsupported("rrshift")

    def __and__(self, o):
        o = coerce(o)
        if o is None:
            return NotImplemented
        if isinstance(o, int) and o >= 0 and self.lo < 0:
            # python's infinite two's complement & with a non-negative mask: result in [0, o]
            return mk(self.e & bv(o), 0, o, o, 0)
        if (isinstance(o, int) and o < 0) or (isinstance(o, SymInt) and o.lo < 0) or self.lo < 0:
            return self._bitop_signed(o, "and")
        if isinstance(o, int):
            pm = self.pm & o
            ko = self.ko & o
            if pm == ko:
                return ko
            return mk(self.e & bv(o), 0, min(self.hi, o), pm, ko)
        pm = self.pm & o.pm
        ko = self.ko & o.ko
        if pm == ko:
            return ko
        return mk(self.e & o.e, 0, min(self.hi, o.hi), pm, ko)

    __rand__ = __and__

    def __or__(self, o):
        o = coerce(o)
        if o is None:
            return NotImplemented
        if (isinstance(o, int) and o < 0) or (isinstance(o, SymInt) and o.lo < 0) or self.lo < 0:
            return self._bitop_signed(o, "or")
        if isinstance(o, int):
            if o == 0:
                return self
            pm = self.pm | o
            return mk(self.e | bv(o), max(self.lo, o), pm, pm, self.ko | o)
        pm = self.pm | o.pm
        return mk(self.e | o.e, max(self.lo, o.lo), pm, pm, self.ko | o.ko)

    __ror__ = __or__

    def __xor__(self, o):
        o = coerce(o)
        if o is None:
            return NotImplemented
        if (isinstance(o, int) and o < 0) or (isinstance(o, SymInt) and o.lo < 0) or self.lo < 0:
            return self._bitop_signed(o, "xor")
        if isinstance(o, int):
            pm = self.pm | o
            return mk(self.e ^ bv(o), 0, pm, pm, 0)
        pm = self.pm | o.pm
        return mk(self.e ^ o.e, 0, pm, pm, 0)

    __rxor__ = __xor__

    def __invert__(self):
        return -self - 1

    def _bitop_signed(self, o, op):
        """bitwise op with possibly negative operands: W-bit two's complement equals python's infinite
        two's complement as long as both operands fit in k bits signed; the result then fits in k bits."""
        olo, ohi = (o, o) if isinstance(o, int) else (o.lo, o.hi)
        k = max(abs(self.lo), abs(self.hi) + 1, abs(olo), abs(ohi) + 1).bit_length()
        lo, hi = -(1 << k), (1 << k) - 1
        oe = iexpr(o)
        e = {"and": self.e & oe, "or": self.e | oe, "xor": self.e ^ oe}[op]
        return mk(e, lo, hi)

    # ---- comparisons
    def _cmp(self, o, op):
        o = coerce(o)
        if o is None:
            return NotImplemented
        if op in ("eq", "ne"):
            r = self._cmp_sign(o)
            if r is not None:
                return r if op == "eq" else Not(r)
        if isinstance(o, int):
            olo = ohi = o
            oe = None
        else:
            olo, ohi, oe = o.lo, o.hi, o.e
        if op == "lt":
            if self.hi < olo:
                return True
            if self.lo >= ohi:
                return False
        elif op == "le":
            if self.hi <= olo:
                return True
            if self.lo > ohi:
                return False
        elif op == "gt":
            if self.lo > ohi:
                return True
            if self.hi <= olo:
                return False
        elif op == "ge":
            if self.lo >= ohi:
                return True
            if self.hi < olo:
                return False
        elif op in ("eq", "ne"):
            dis = self.hi < olo or self.lo > ohi
            if not dis and self.lo >= 0 and olo >= 0:
                opm = o if isinstance(o, int) else o.pm
                oko = o if isinstance(o, int) else o.ko
                # a bit known one on one side and impossible on the other
                if (self.ko & ~opm) or (oko & ~self.pm):
                    dis = True
            if dis:
                return op == "ne"
        if oe is None:
            oe = bv(o)
        if op == "lt":
            return mkbool(self.e < oe)
        if op == "le":
            return mkbool(self.e <= oe)
        if op == "gt":
            return mkbool(self.e > oe)
        if op == "ge":
            return mkbool(self.e >= oe)
        if op == "eq":
            return mkbool(self.e == oe)
        return mkbool(self.e != oe)

    def _cmp_sign(self, o):
        """canonical equality for sign values / sums of two sign values; None if n/a."""
        if self.sg is not None:
            osg = _sg_of(o)
            if osg is not None:
                d = _sg_mul(self.sg, osg)          # product == 1  <=>  equal
                b = _sg_is_neg_bool(d)
                return (not b) if isinstance(b, bool) else mkbool(z3.Not(b))
            if isinstance(o, int):
                return False
        if self.ss is not None and isinstance(o, int):
            a, b = self.ss
            if o == 0:       # signs differ: Xor of the two sign bools (kept in terms of the operands)
                ba, bb = _sg_is_neg_bool(a), _sg_is_neg_bool(b)
                if isinstance(ba, bool) or isinstance(bb, bool):
                    d = _sg_is_neg_bool(_sg_mul(a, b))
                    return d if isinstance(d, bool) else mkbool(d)
                if ba.get_id() > bb.get_id():
                    ba, bb = bb, ba
                return mkbool(z3.Xor(ba, bb))
            if o in (2, -2):  # both equal to o/2
                want_neg = o < 0
                ba, bb = _sg_is_neg_bool(a), _sg_is_neg_bool(b)
                ea = ba if isinstance(ba, bool) else SymBool(ba)
                eb = bb if isinstance(bb, bool) else SymBool(bb)
                if want_neg:
                    return And(ea, eb)
                return And(Not(ea), Not(eb))
            return False
        return None

    def __lt__(self, o):
        return self._cmp(o, "lt")

    def __le__(self, o):
        return self._cmp(o, "le")

    def __gt__(self, o):
        return self._cmp(o, "gt")

    def __ge__(self, o):
        return self._cmp(o, "ge")

    def __eq__(self, o):
        if o is self:
            return True
        return self._cmp(o, "eq")

    def __ne__(self, o):
        if o is self:
            return False
        return self._cmp(o, "ne")


def _narrow_apply(fn, lo_bits, *es):
    """Apply a z3 bit-vector operation on operands narrowed to `lo_bits` bits (all operands
    and the result are known to be non-negative and to fit), then zero-extend back."""
    w = ctx().width
    nb = max(1, lo_bits)
    if nb >= w - 1:
        return fn(*es)
    ns = [z3.Extract(nb - 1, 0, e) for e in es]
    return z3.ZeroExt(w - nb, fn(*ns))


def coerce(o):
    """Return python int, SymInt, or None (unsupported operand -> NotImplemented)."""
    if isinstance(o, SymInt):
        return o
    if isinstance(o, bool):
        return int(o)
    if isinstance(o, int):
        return o
    if isinstance(o, SymBool):
        return ite(o, 1, 0)
    return None


def bv(v, width=None):
    return z3.BitVecVal(v, width or ctx().width)


def mk(e, lo, hi, pm=None, ko=0):
    """Build a SymInt (or a python int when the value is determined)."""
    w = ctx().width
    lim = 1 << (w - 1)
    if lo < -lim or hi >= lim:
        raise Unsupported("value interval [%d, %d] exceeds the %d-bit working width" % (lo, hi, w))
    if lo > hi:
        # empty interval: the path is infeasible on the interval abstraction
        raise PathAbort()
    if lo == hi:
        return lo
    s = SymInt(e, lo, hi, pm, ko)
    if s.lo == s.hi:
        return s.lo
    if s.lo >= 0 and s.pm == s.ko:
        return s.ko
    return s


def refine(x, lo, hi):
    """Same expression with a tighter interval justified by the current path condition."""
    if isinstance(x, int):
        return x
    return mk(x.e, max(x.lo, lo), min(x.hi, hi), x.pm, x.ko)


def iexpr(x):
    if isinstance(x, SymInt):
        return x.e
    if isinstance(x, bool):
        return bv(int(x))
    if isinstance(x, int):
        return bv(x)
    raise TypeError("not an int: %r" % (x,))


def lift(v):
    """A SymInt holding a constant (not folded; for hashed containers)."""
    if isinstance(v, SymInt):
        return v
    s = SymInt(bv(v), v, v, v if v >= 0 else None, v if v >= 0 else 0, pinned=True)
    return s


def ite(c, a, b):
    """if-then-else over ints / SymInts / bools (c: bool | SymBool)."""
    if isinstance(c, bool):
        return a if c else b
    ce = bexpr(c)
    if isinstance(a, (bool, SymBool)) and isinstance(b, (bool, SymBool)):
        return mkbool(z3.If(ce, bexpr(a), bexpr(b)))
    a = coerce(a)
    b = coerce(b)
    if isinstance(a, int) and isinstance(b, int) and a == b:
        return a
    sa, sb = _sg_of(a), _sg_of(b)
    if sa is not None and sb is not None:
        ba, bb = _sg_is_neg_bool(sa), _sg_is_neg_bool(sb)
        B = z3.simplify(z3.If(ce, ba if not isinstance(ba, bool) else z3.BoolVal(ba),
                              bb if not isinstance(bb, bool) else z3.BoolVal(bb)))
        if z3.is_true(B):
            return -1
        if z3.is_false(B):
            return 1
        neg, i = _atom(B)
        return mksign(neg, {i})
    alo, ahi = (a, a) if isinstance(a, int) else (a.lo, a.hi)
    blo, bhi = (b, b) if isinstance(b, int) else (b.lo, b.hi)
    lo, hi = min(alo, blo), max(ahi, bhi)
    if lo >= 0:
        apm, ako = (a, a) if isinstance(a, int) else (a.pm, a.ko)
        bpm, bko = (b, b) if isinstance(b, int) else (b.pm, b.ko)
        return mk(z3.If(ce, iexpr(a), iexpr(b)), lo, hi, apm | bpm, ako & bko)
    return mk(z3.If(ce, iexpr(a), iexpr(b)), lo, hi)


def smax(a, b):
    return ite(a >= b, a, b)


def smin(a, b):
    return ite(a <= b, a, b)


# --------------------------------------------------------------------------------------
# Context: exploration by re-execution
# --------------------------------------------------------------------------------------
class Frame:
    __slots__ = ("prefix", "pos", "trace", "conds", "alts", "use_solver")

    def __init__(self, prefix, use_solver):
        self.prefix = prefix
        self.pos = 0
        self.trace = []
        self.conds = []
        self.alts = []
        self.use_solver = use_solver


class Stats:
    def __init__(self):
        self.paths = 0
        self.aborted_paths = 0
        self.decisions = 0
        self.feas_queries = 0
        self.feas_time = 0.0
        self.queries = 0
        self.query_time = 0.0
        self.verdicts = {"unsat": 0, "sat": 0, "unknown": 0}
        self.obligations = {}      # label -> dict(paths, unsat, sat, unknown, nontrivial)
        self.inconclusive = []     # messages
        self.merged_calls = 0
        self.merged_paths = 0

    def ob(self, label):
        return self.obligations.setdefault(
            label, {"paths": 0, "unsat": 0, "sat": 0, "unknown": 0, "nontrivial": 0, "trivial": 0})


class Context:
    def __init__(self, width=DEFAULT_WIDTH, max_decisions=200000, query_timeout_ms=120000,
                 seed=0, allow_mul=False, tactic=None):
        self.width = width
        self.max_decisions = max_decisions
        self.query_timeout_ms = query_timeout_ms
        self.seed = seed
        self.allow_mul = allow_mul
        self.tactic = tactic
        self.frames = []
        self.solver = None
        self.inputs = {}        # name -> (z3 var, kind, lo, hi)
        self.input_order = []
        self.assumptions = []   # z3 bools asserted at declaration (validity predicates, pins)
        self.stats = Stats()
        self.counterexamples = []
        self.samples = []
        self.pins = None
        self.observed = {}
        self.fresh_id = 0
        self.path_decisions = 0
        self.extra_model_vars = {}
        self.global_conds = []
        self.logic = "QF_BV"
        self.unknown_is_feasible = False
        self.feas_timeout_ms = None

    # ---- inputs
    def _declare(self, name, var, kind, lo, hi):
        if name not in self.inputs:
            self.input_order.append(name)
        self.inputs[name] = (var, kind, lo, hi)

    def int(self, name, lo, hi):
        """Declare a symbolic integer input with validity predicate lo <= x <= hi."""
        v = z3.BitVec(name, self.width)
        self._declare(name, v, "int", lo, hi)
        cons = z3.And(v >= bv(lo), v <= bv(hi))
        self._assume_raw(cons)
        if self.pins is not None and name in self.pins:
            self._assume_raw(v == bv(self.pins[name]))
        if lo == hi:
            return lo
        return SymInt(v, lo, hi)

    def bool(self, name):
        v = z3.Bool(name)
        self._declare(name, v, "bool", 0, 1)
        if self.pins is not None and name in self.pins:
            self._assume_raw(v == bool(self.pins[name]))
        return SymBool(v)

    def cut(self, x, stem="cut"):
        """Cut point: a fresh variable v with the definition v == x added to the path condition;
        the computation continues with v, so later terms stay shallow.  Exact (not an
        abstraction): every query still carries the definition."""
        if not isinstance(x, SymInt) or x.pinned:
            return x
        if x.sg is not None:
            b = self.fresh_bool(stem)
            self.assume(SymBool(b.e == _sign_bool(x.sg)))
            neg, i = _atom(b.e)
            return mksign(neg, {i})
        v = self.fresh_int(stem, x.lo, x.hi)
        if isinstance(v, int):
            return v
        v.pm, v.ko = x.pm, x.ko
        fr = self.frames[-1]
        e = v.e == x.e
        fr.conds.append(e)
        if fr.use_solver:
            self.solver.add(e)
        return v

    def fresh_int(self, stem, lo, hi):
        self.fresh_id += 1
        return self.int("%s#%d" % (stem, self.fresh_id), lo, hi)

    def fresh_bool(self, stem):
        self.fresh_id += 1
        return self.bool("%s#%d" % (stem, self.fresh_id))

    def _assume_raw(self, e):
        fr = self.frames[0]
        fr.conds.append(e)
        self.solver.add(e)
        self.global_conds.append(e)

    def upgrade_solver(self):
        """switch the feasibility solver from the QF_BV core to the general one (floats/reals appear)."""
        if self.logic == "QF_BV":
            old = self.solver
            self.solver = z3.Solver()
            self.solver.set("timeout", self.feas_timeout_ms or self.query_timeout_ms)
            for a in old.assertions():
                self.solver.add(a)
            self.logic = None

    def globally_infeasible(self, e):
        """True if `e` contradicts the input validity predicates alone (independent of the path)."""
        s = z3.SolverFor("QF_BV") if self.logic == "QF_BV" else z3.Solver()
        s.set("timeout", 20000)
        for g in self.global_conds:
            s.add(g)
        s.add(e)
        self.stats.feas_queries += 1
        t = time.time()
        r = s.check()
        self.stats.feas_time += time.time() - t
        return r == z3.unsat

    def assume(self, b):
        """Constrain the current path (precondition).  Infeasible -> path aborted."""
        if isinstance(b, bool):
            if not b:
                raise PathAbort()
            return
        e = bexpr(b)
        fr = self.frames[-1]
        if fr.use_solver:
            self.stats.feas_queries += 1
            t = time.time()
            self.solver.push()
            self.solver.add(e)
            r = self.solver.check()
            self.solver.pop()
            self.stats.feas_time += time.time() - t
            if r == z3.unsat:
                raise PathAbort()
            if r == z3.unknown and not self.unknown_is_feasible:
                raise Inconclusive("solver unknown on assumption")
            self.solver.add(e)
        fr.conds.append(e)

    # ---- decisions
    def _feasible(self, c, fr):
        s = _simplify(c)
        if z3.is_false(s):
            return False
        if z3.is_true(s):
            return True
        if not fr.use_solver:
            return True
        self.stats.feas_queries += 1
        t = time.time()
        self.solver.push()
        self.solver.add(s)
        r = self.solver.check()
        self.solver.pop()
        self.stats.feas_time += time.time() - t
        if r == z3.unknown:
            if self.unknown_is_feasible:
                # over-approximate the path set: sound for proving, a model found on such a path still
                # has to satisfy the full path condition in the final query and to replay
                self.stats.feas_unknown = getattr(self.stats, "feas_unknown", 0) + 1
                return True
            raise Inconclusive("solver unknown on branch feasibility")
        return r == z3.sat

    def choose(self, conds):
        """n-ary decision among mutually exclusive, jointly exhaustive conditions."""
        fr = self.frames[-1]
        self.stats.decisions += 1
        self.path_decisions += 1
        if self.path_decisions > self.max_decisions:
            raise Inconclusive("per-path decision budget exhausted (unwinding bound)")
        if fr.pos < len(fr.prefix):
            k = fr.prefix[fr.pos]
        else:
            feas = []
            n = len(conds)
            for i, c in enumerate(conds):
                if i == n - 1 and not feas and fr.use_solver:
                    # all others infeasible and the path itself is feasible
                    s = z3.simplify(c)
                    if not z3.is_false(s):
                        feas.append(i)
                    continue
                if self._feasible(c, fr):
                    feas.append(i)
            if not feas:
                raise PathAbort()
            k = feas[0]
            for other in feas[1:]:
                fr.alts.append(fr.trace + [other])
        fr.trace.append(k)
        fr.pos += 1
        c = conds[k]
        fr.conds.append(c)
        if fr.use_solver:
            self.solver.add(c)
        return k

    def branch(self, e):
        s = _simplify(e)
        if z3.is_true(s):
            return True
        if z3.is_false(s):
            return False
        return self.choose([s, z3.Not(s)]) == 0

    def concretize(self, x):
        """__index__: fork over the values of the interval (deterministic order)."""
        if x.pinned:
            return x.lo
        n = x.hi - x.lo + 1
        if n > 4096:
            vals = self.enumerate_values(x, 64)
            k = self.choose([x.e == bv(v) for v in vals])
            return vals[k]
        vals = [v for v in range(x.lo, x.hi + 1)
                if x.lo < 0 or ((v & ~x.pm) == 0 and (v & x.ko) == x.ko)]
        k = self.choose([x.e == bv(v) for v in vals])
        return vals[k]

    def enumerate_values(self, x, limit):
        """all values of x feasible under the current path condition (solver AllSAT on x); more than
        `limit` values -> Unsupported.  Deterministic: values are returned sorted."""
        fr = self.frames[-1]
        if not fr.use_solver:
            raise Unsupported("concretising a wide SymInt inside a merged function")
        vals = []
        self.solver.push()
        try:
            while True:
                self.stats.feas_queries += 1
                r = self.solver.check()
                if r == z3.unknown:
                    raise Inconclusive("solver unknown while enumerating values")
                if r == z3.unsat:
                    break
                v = self.solver.model().eval(x.e, model_completion=True).as_signed_long()
                vals.append(v)
                if len(vals) > limit:
                    raise Unsupported("concretising a SymInt with more than %d feasible values" % limit)
                self.solver.add(x.e != bv(v))
        finally:
            self.solver.pop()
        if not vals:
            raise PathAbort()
        return sorted(vals)

    def enumerate_tuples(self, values, limit=2000, label="enumerate"):
        """AllSAT over a tuple of symbolic ints under the current path condition: returns every feasible value
        tuple (the final unsat answer proves the list complete).  More than `limit` -> Unsupported."""
        es = [z3.simplify(iexpr(v), som=True) for v in values]
        s = z3.SolverFor("QF_BV") if self.logic == "QF_BV" else z3.Solver()
        s.set("timeout", self.query_timeout_ms)
        for cnd in self.path_cond():
            s.add(cnd)
        out = []
        t0 = time.time()
        while True:
            r = s.check()
            self.stats.queries += 1
            if r == z3.unknown:
                raise Inconclusive("solver unknown during enumeration")
            if r == z3.unsat:
                self.stats.verdicts["unsat"] += 1
                break
            self.stats.verdicts["sat"] += 0
            m = s.model()
            tup = tuple(m.eval(e, model_completion=True).as_signed_long() for e in es)
            out.append((tup, self.model_inputs(m)))
            if len(out) > limit:
                raise Unsupported("more than %d tuples in enumeration" % limit)
            s.add(z3.Or(*[e != bv(v) for e, v in zip(es, tup)]))
        self.stats.query_time += time.time() - t0
        ob = self.stats.ob(label)
        ob["paths"] += 1
        ob["nontrivial"] += 1
        ob["unsat"] += 1
        ob["enumerated"] = ob.get("enumerated", 0) + len(out)
        return out

    def path_cond(self):
        out = []
        for fr in self.frames:
            out.extend(fr.conds)
        return out

    # ---- obligations
    def _new_solver(self):
        if self.tactic and self.logic == "QF_BV":
            s = z3.Tactic(self.tactic).solver()
        else:
            s = z3.Solver()
        s.set("timeout", self.query_timeout_ms)
        try:
            s.set("random_seed", self.seed)
        except Exception:
            pass
        return s

    def model_inputs(self, m):
        out = {}
        for name in self.input_order:
            var, kind, lo, hi = self.inputs[name]
            v = m.eval(var, model_completion=True)
            if kind == "int":
                out[name] = v.as_signed_long()
            elif kind == "bool":
                out[name] = bool(z3.is_true(v))
            elif kind == "real":
                out[name] = str(v)
            else:
                out[name] = str(v)
        return out

    def _abstract_query(self, neg, abstract):
        """Generalise the negated claim by replacing the given sub-terms with fresh variables
        (constrained to the term's interval).  unsat of the generalisation implies unsat of the
        original query; anything else is inconclusive and the precise query is run."""
        subs, cons = [], []
        for n, t in enumerate(abstract):
            if isinstance(t, SymInt):
                if t.sg is not None:
                    subs.append((_sign_bool((False, t.sg[1])), z3.Bool("abs!b%d" % n)))
                else:
                    v = z3.BitVec("abs!i%d" % n, self.width)
                    subs.append((t.e, v))
                    cons.append(z3.And(v >= bv(t.lo), v <= bv(t.hi)))
            elif isinstance(t, SymBool):
                subs.append((t.e, z3.Bool("abs!b%d" % n)))
        if not subs:
            return None
        g = z3.substitute(neg, *subs)
        s = self._new_solver()
        s.set("timeout", min(self.query_timeout_ms, 20000))
        for cn in cons:
            s.add(cn)
        s.add(g)
        t0 = time.time()
        r = s.check()
        self.stats.query_time += time.time() - t0
        self.stats.abstract_queries = getattr(self.stats, "abstract_queries", 0) + 1
        return str(r)

    def prove_eq(self, x, y, label, abstract=None, info=None):
        """prove x == y; with `abstract`, first try the generalised query built from the *raw*
        (unsimplified) terms so that the given sub-terms really occur in it."""
        if abstract and (isinstance(x, SymInt) or isinstance(y, SymInt)):
            raw = iexpr(x) == iexpr(y)
            r = self._abstract_query(z3.Not(raw), abstract)
            if r == "unsat":
                ob = self.stats.ob(label)
                ob["paths"] += 1
                ob["nontrivial"] += 1
                ob["unsat"] += 1
                ob["via_abstraction"] = ob.get("via_abstraction", 0) + 1
                self.stats.queries += 1
                self.stats.verdicts["unsat"] += 1
                self._sample(label, "generalised (sub-terms replaced by fresh variables): " + _short(SymBool(raw)))
                return True
        return self.prove(x == y, label, info=info)

    def prove(self, claim, label, info=None, abstract=None):
        """Obligation: on this path `claim` holds for every value of the inputs.
        unsat(path and not claim) -> discharged; sat -> counterexample recorded."""
        ob = self.stats.ob(label)
        ob["paths"] += 1
        if abstract and not isinstance(claim, bool):
            r = self._abstract_query(z3.Not(bexpr(claim)), abstract)
            if r == "unsat":
                ob["nontrivial"] += 1
                ob["unsat"] += 1
                ob["via_abstraction"] = ob.get("via_abstraction", 0) + 1
                self.stats.queries += 1
                self.stats.verdicts["unsat"] += 1
                self._sample(label, claim)
                return True
        if isinstance(claim, bool):
            if claim:
                ob["trivial"] += 1
                self._sample(label, "True (decided by execution/intervals on this path)")
                return True
            neg = z3.BoolVal(True)
        else:
            neg = z3.Not(bexpr(claim))
        ob["nontrivial"] += 1
        s = self._new_solver()
        pc = self.path_cond()
        for c in pc:
            s.add(c)
        s.add(neg)
        t = time.time()
        r = s.check()
        dt = time.time() - t
        self.stats.queries += 1
        self.stats.query_time += dt
        rs = str(r)
        self.stats.verdicts[rs] += 1
        ob[rs] += 1
        if self.crosscheck_left > 0 and not isinstance(claim, bool) and rs in ("unsat", "sat"):
            self.crosscheck_left -= 1
            self._crosscheck(s, rs, label)
        if rs == "unsat":
            self._sample(label, claim)
            return True
        if rs == "unknown":
            self.stats.inconclusive.append("%s: solver unknown (%s)" % (label, s.reason_unknown()))
            return None
        m = s.model()
        cex = {"label": label, "inputs": self.model_inputs(m), "info": info}
        if self.cex_eval is not None:
            try:
                cex["observed"] = self.cex_eval(m)
            except Exception as ex:  # pragma: no cover
                cex["observed"] = "eval error: %r" % (ex,)
        self.counterexamples.append(cex)
        return False

    export_hook = None
    cex_eval = None
    crosscheck_left = 0

    def _crosscheck(self, solver, verdict, label):
        """decide the same query a second time with cvc5 (SMT-LIB2 export); a disagreement is a harness error."""
        st = self.stats.__dict__.setdefault("crosscheck", {"agree": 0, "cvc5_unknown": 0, "disagree": 0, "error": 0})
        try:
            import cvc5
            txt = "(set-logic ALL)\n" + solver.to_smt2()
            # z3 prints division by a non-zero constant with its internal total variants
            for op in ("bvudiv", "bvurem", "bvsdiv", "bvsrem", "bvsmod"):
                txt = txt.replace("(%s_i " % op, "(%s " % op)
            slv = cvc5.Solver()
            slv.setOption("tlimit-per", "10000")
            p = cvc5.InputParser(slv)
            p.setStringInput(cvc5.InputLanguage.SMT_LIB_2_6, txt, "q")
            sm = p.getSymbolManager()
            out = ""
            while True:
                cmd = p.nextCommand()
                if cmd.isNull():
                    break
                r = cmd.invoke(slv, sm)
                if r.strip():
                    out = r.strip().split()[0]
            if out in ("sat", "unsat"):
                if out == verdict:
                    st["agree"] += 1
                else:
                    st["disagree"] += 1
                    self.stats.inconclusive.append("SOLVER-DISAGREEMENT on %s: z3 %s, cvc5 %s" % (label, verdict, out))
            else:
                st["cvc5_unknown"] += 1
        except Exception:
            st["error"] += 1

    def fail(self, label, info=None):
        if isinstance(info, dict) and proxy_artifact(str(info.get("exc", ""))):
            raise Unsupported("exception caused by a symbolic proxy at a C-level boundary: %s" % info.get("exc"))
        return self.prove(False, label, info)

    def reach(self, label):
        """Reachability twin: the assertion point is reachable (path feasible)."""
        ob = self.stats.ob(label)
        ob["reached"] = ob.get("reached", 0) + 1

    def _sample(self, label, claim):
        if len(self.samples) < 64:
            txt = claim if isinstance(claim, str) else _short(claim)
            self.samples.append({"obligation": label, "path": list(self.frames[0].trace)[:40],
                                 "claim": txt})

    def observe(self, name, value):
        self.observed[name] = value


_PROXY_NAMES = ("SymInt", "SymBool", "SymStr", "SymReal", "SymFP", "SymFInt", "SymFloat", "OpaqueFloat", "Dual", "HookedList", "HookedDict")


def proxy_artifact(msg):
    """TypeError/ValueError texts that mention a proxy class come from C-level code rejecting the proxy."""
    return any(n in msg for n in _PROXY_NAMES) and ("TypeError" in msg or "must be" in msg or "not supported" in msg
                                                      or "unsupported operand" in msg or "object cannot" in msg)


def _short(claim, n=300):
    try:
        e = bexpr(claim)
        t = e.sexpr()
    except Exception:
        t = repr(claim)
    t = " ".join(t.split())
    return t if len(t) <= n else t[:n] + " ...[%d chars]" % len(t)


class Result:
    def __init__(self):
        self.stats = None
        self.counterexamples = []
        self.samples = []
        self.inconclusive = []
        self.errors = []
        self.wall = 0.0
        self.observations = []


def explore(harness, params=None, width=DEFAULT_WIDTH, max_paths=200000, max_decisions=200000,
            query_timeout_ms=120000, seed=0, pins=None, allow_mul=False, tactic=None,
            stop_on_cex=4, time_budget=None, setup=None, logic="QF_BV", unknown_is_feasible=False,
            feas_timeout_ms=None, crosscheck=0):
    """Run `harness(ctx, **params)` once per feasible decision sequence (DFS)."""
    global _CTX
    params = params or {}
    t0 = time.time()
    c = Context(width=width, max_decisions=max_decisions, query_timeout_ms=query_timeout_ms,
                seed=seed, allow_mul=allow_mul, tactic=tactic)
    c.pins = pins
    c.crosscheck_left = crosscheck
    res = Result()
    work = [[]]
    prev = _CTX
    _CTX = c
    try:
        while work:
            if c.stats.paths >= max_paths:
                c.stats.inconclusive.append("path budget %d exhausted with %d pending" % (max_paths, len(work)))
                break
            if time_budget is not None and time.time() - t0 > time_budget:
                c.stats.inconclusive.append("time budget %.0fs exhausted with %d pending" % (time_budget, len(work)))
                break
            if stop_on_cex and len(c.counterexamples) >= stop_on_cex:
                break
            prefix = work.pop()
            fr = Frame(prefix, True)
            c.frames = [fr]
            c.solver = z3.SolverFor(logic) if logic else z3.Solver()
            c.solver.set("timeout", feas_timeout_ms or query_timeout_ms)
            c.unknown_is_feasible = unknown_is_feasible
            c.feas_timeout_ms = feas_timeout_ms
            c.inputs = {}
            c.input_order = []
            c.global_conds = []
            c.logic = logic
            c.fresh_id = 0
            c.path_decisions = 0
            c.observed = {}
            c.stats.paths += 1
            try:
                if setup is not None:
                    setup(c)
                harness(c, **params)
                if pins is not None:
                    r = c.solver.check()
                    if r == z3.sat:
                        res.observations.append(_eval_observed(c, c.solver.model()))
            except PathAbort:
                c.stats.aborted_paths += 1
            except Exception as ex:
                # the code under test raised where the harness did not expect it: a counterexample candidate
                import traceback as _tb
                try:
                    c.fail("no-unexpected-exception", info={"exc": "%s: %s" % (type(ex).__name__, ex),
                                                            "where": _tb.format_exc()[-600:]})
                except Unsupported as ux:
                    c.stats.inconclusive.append("unsupported: %s" % ux)
            except Inconclusive as ex:
                c.stats.inconclusive.append("inconclusive: %s" % ex)
            except Unsupported as ex:
                c.stats.inconclusive.append("unsupported: %s" % ex)
            finally:
                c.frames = [fr]
            work.extend(reversed(fr.alts))
    finally:
        _CTX = prev
    res.stats = c.stats
    res.extra = getattr(c, "extra", None)
    res.counterexamples = c.counterexamples
    res.samples = c.samples
    res.inconclusive = c.stats.inconclusive
    res.wall = time.time() - t0
    return res


def _eval_observed(c, m):
    out = {}
    for k, v in c.observed.items():
        out[k] = _concrete(v, m)
    out["__inputs__"] = c.model_inputs(m)
    return out


def _concrete(v, m):
    if isinstance(v, SymInt):
        return m.eval(v.e, model_completion=True).as_signed_long()
    if isinstance(v, SymBool):
        return bool(z3.is_true(m.eval(v.e, model_completion=True)))
    if isinstance(v, (list, tuple)):
        return [_concrete(x, m) for x in v]
    if isinstance(v, dict):
        return {k: _concrete(x, m) for k, x in v.items()}
    if hasattr(v, "_symx_concrete"):
        return v._symx_concrete(m)
    return v
