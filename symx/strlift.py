"""Source-level lifting of string constants (used by C19).

String literals live in a function's co_consts and their methods are C code: '%x' % n, ''.join(...),
TABLE[nibble] and f-strings would concretise (or reject) symbolic operands before any shim sees them.
`lift_module` re-compiles a module from its *current source* with
  * every string literal  "..."      ->  __symx_K__("...")            (a KStr: str subclass whose %, join, format,
                                                                      indexing go through the string model when an
                                                                      operand is symbolic, and are plain str otherwise)
  * every f-string        f"..{e:s}" ->  __symx_fstr__(("..", (e, conv, "s")))
and executes it in the module's own namespace, so the functions analysed are still the repository's
functions, statement for statement; only the representation of their literals changes.  Module-level
str globals are rebound to KStr as well.  With concrete operands KStr behaves exactly as str (checked
by the conformance job: the lifted module is run on concrete values against the real builtins).
"""
import ast
import inspect
import re
import string as _string

from . import core
from .core import SymInt, Unsupported
from . import strs
from .strs import SymStr


def _sym(x):
    return isinstance(x, (SymInt, SymStr)) or getattr(x, "_symx_symbolic", False)


_PCT = re.compile(r"%(?:\((\w+)\))?([#0\- +]*)(\*|\d+)?(?:\.(\d+))?([hlL])?([diouxXeEfFgGcrsa%])")


def _chars_of(v):
    if isinstance(v, SymStr):
        return list(v.c)
    if isinstance(v, str):
        return [ord(ch) for ch in v]
    raise TypeError(v)


def _fmt_value(v, spec, conv=None):
    """format(v, spec) with the model for symbolic values -> list of character codes"""
    if conv in ("r", "a") and _sym(v):
        raise Unsupported("!r conversion of a symbolic value")
    if isinstance(v, SymInt):
        if conv == "s":
            raise Unsupported("str(SymInt) (decimal rendering)")
        if not spec or spec[-1] in "dn" or spec[-1] not in "xXbo":
            raise Unsupported("decimal formatting of a SymInt (spec %r)" % spec)
        return _chars_of(strs.format_int(v, spec))
    if isinstance(v, SymStr):
        m = re.fullmatch(r"(?:(.)?([<>^]))?(\d+)?s?", spec or "")
        if not m:
            raise Unsupported("format spec %r for a symbolic string" % spec)
        fill, align, width = m.groups()
        w = int(width) if width else 0
        pad = max(0, w - len(v.c))
        f = ord(fill) if fill else 32
        if (align or "<") == "<":
            return list(v.c) + [f] * pad
        if align == ">":
            return [f] * pad + list(v.c)
        return [f] * (pad // 2) + list(v.c) + [f] * (pad - pad // 2)
    if _sym(v):
        raise Unsupported("formatting of a symbolic %s" % type(v).__name__)
    if conv == "r":
        v = repr(v)
    elif conv == "s":
        v = str(v)
    elif conv == "a":
        v = ascii(v)
    return _chars_of(format(v, spec or ""))


def percent_format(fmt, args):
    """fmt % args for conversions x X o s c %% with flags # 0 - + space and a width (symbolic operands)."""
    if isinstance(args, dict):
        raise Unsupported("%-formatting with a mapping")
    if not isinstance(args, tuple):
        args = (args,)
    out, pos, ai = [], 0, 0
    for m in _PCT.finditer(fmt):
        out += [ord(ch) for ch in fmt[pos:m.start()]]
        pos = m.end()
        key, flags, width, prec, _l, typ = m.groups()
        if typ == "%":
            out.append(37)
            continue
        if key or width == "*" or prec:
            raise Unsupported("%-format feature in %r" % m.group(0))
        if ai >= len(args):
            raise TypeError("not enough arguments for format string")
        v = args[ai]
        ai += 1
        if not _sym(v):
            out += [ord(ch) for ch in ("%" + m.group(0)[1:]) % (v,)]
            continue
        if isinstance(v, SymInt):
            if typ not in "xXo":
                raise Unsupported("%%%s of a SymInt (decimal rendering)" % typ)
            spec = ""
            if "-" in flags:
                spec += "<"
            if "+" in flags:
                spec += "+"
            elif " " in flags:
                spec += " "
            if "#" in flags:
                spec += "#"
            if "0" in flags and "-" not in flags:
                spec += "0"
            spec += (width or "") + typ
            out += _chars_of(strs.format_int(v, spec))
        elif isinstance(v, SymStr):
            if typ != "s":
                raise TypeError("%%%s format: a real number is required, not str" % typ)
            w = int(width) if width else 0
            pad = [32] * max(0, w - len(v.c))
            out += (list(v.c) + pad) if "-" in flags else (pad + list(v.c))
        else:
            raise Unsupported("%%-formatting of a symbolic %s" % type(v).__name__)
    if "%" in fmt[pos:]:
        raise ValueError("incomplete format")
    out += [ord(ch) for ch in fmt[pos:]]
    if ai != len(args):
        raise TypeError("not all arguments converted during string formatting")
    return SymStr(out)._maybe()


def brace_format(fmt, args, kwargs):
    out, auto = [], 0
    for lit, field, spec, conv in _string.Formatter().parse(fmt):
        out += [ord(ch) for ch in lit]
        if field is None:
            continue
        if "{" in (spec or ""):
            raise Unsupported("nested format fields")
        m = re.fullmatch(r"(\w*)", field)
        if not m:
            raise Unsupported("format field %r" % field)
        if field == "":
            v = args[auto]
            auto += 1
        elif field.isdigit():
            v = args[int(field)]
        else:
            v = kwargs[field]
        out += _fmt_value(v, spec or "", conv)
    return SymStr(out)._maybe()


class KStr(str):
    """a str literal of the analysed module: plain str unless an operand is symbolic"""
    __slots__ = ()

    def __getitem__(self, k):
        if isinstance(k, SymInt):
            n = len(self)
            if k.lo < 0 and bool(k < 0):
                k = k + n
            if bool(core.Or(k < 0, k >= n)):
                raise IndexError("string index out of range")
            code = ord(str.__getitem__(self, n - 1))
            for i in range(n - 2, -1, -1):
                code = core.ite(k == i, ord(str.__getitem__(self, i)), code)
            return SymStr([code])._maybe()
        return str.__getitem__(self, k)

    def join(self, it):
        items = list(it)
        if any(isinstance(x, SymStr) for x in items):
            sep = [ord(ch) for ch in str(self)]
            out = []
            for i, x in enumerate(items):
                if i:
                    out += sep
                out += _chars_of(x)
            return SymStr(out)._maybe()
        return str.join(self, items)

    def __mod__(self, args):
        a = args if isinstance(args, tuple) else (args,)
        if any(_sym(x) for x in a):
            return percent_format(str(self), args)
        return str.__mod__(self, args)

    def format(self, *args, **kwargs):
        if any(_sym(x) for x in args) or any(_sym(x) for x in kwargs.values()):
            return brace_format(str(self), args, kwargs)
        return str.format(self, *args, **kwargs)

    def __contains__(self, sub):
        if isinstance(sub, SymStr):
            return SymStr.of(str(self)).__contains__(sub)
        return str.__contains__(self, sub)

    def index(self, sub, *a):
        if isinstance(sub, SymStr):
            return self.find_model(sub, True)
        return str.index(self, sub, *a)

    def find(self, sub, *a):
        if isinstance(sub, SymStr):
            return self.find_model(sub, False)
        return str.find(self, sub, *a)

    def find_model(self, sub, strict):
        if len(sub.c) != 1:
            raise Unsupported("find of a multi-character symbolic string")
        x = sub.c[0]
        n = len(self)
        hit = core.Or(*[x == ord(ch) for ch in str(self)])
        if not bool(hit):
            if strict:
                raise ValueError("substring not found")
            return -1
        r = n - 1
        for i in range(n - 2, -1, -1):
            r = core.ite(x == ord(str.__getitem__(self, i)), i, r)
        return r


def fstr(parts):
    """model of an f-string: parts are str literals or (value, conversion, spec) triples"""
    sym = any(isinstance(p, tuple) and _sym(p[0]) for p in parts)
    if not sym:
        out = []
        for p in parts:
            if isinstance(p, tuple):
                v, conv, spec = p
                if conv == "r":
                    v = repr(v)
                elif conv == "s":
                    v = str(v)
                elif conv == "a":
                    v = ascii(v)
                out.append(format(v, str(spec) if spec is not None else ""))
            else:
                out.append(p)
        return "".join(out)
    out = []
    for p in parts:
        if isinstance(p, tuple):
            v, conv, spec = p
            if isinstance(spec, SymStr):
                raise Unsupported("symbolic format spec")
            out += _fmt_value(v, str(spec) if spec is not None else "", conv)
        else:
            out += [ord(ch) for ch in p]
    return SymStr(out)._maybe()


class _Lift(ast.NodeTransformer):
    def visit_Expr(self, node):
        if isinstance(node.value, ast.Constant) and isinstance(node.value.value, str):
            return node                      # docstring / bare string statement
        return self.generic_visit(node)

    def visit_Constant(self, node):
        if isinstance(node.value, str):
            return ast.copy_location(ast.Call(ast.Name("__symx_K__", ast.Load()), [node], []), node)
        return node

    def _fparts(self, node):
        elts = []
        for v in node.values:
            if isinstance(v, ast.Constant):
                elts.append(v)
            else:
                spec = ast.Constant(None)
                if v.format_spec is not None:
                    spec = self.visit_JoinedStr(v.format_spec)
                conv = ast.Constant(chr(v.conversion) if v.conversion != -1 else None)
                elts.append(ast.Tuple([self.visit(v.value), conv, spec], ast.Load()))
        return ast.Tuple(elts, ast.Load())

    def visit_JoinedStr(self, node):
        return ast.copy_location(ast.Call(ast.Name("__symx_fstr__", ast.Load()), [self._fparts(node)], []), node)

    # annotations and match patterns must stay literal
    def visit_AnnAssign(self, node):
        if node.value is not None:
            node.value = self.visit(node.value)
        return node

    def visit_arguments(self, node):
        node.defaults = [self.visit(d) for d in node.defaults]
        node.kw_defaults = [self.visit(d) if d is not None else None for d in node.kw_defaults]
        return node

    def visit_FunctionDef(self, node):
        node.args = self.visit_arguments(node.args)
        node.body = [self.visit(s) for s in node.body]
        node.decorator_list = [self.visit(d) for d in node.decorator_list]
        return node

    visit_AsyncFunctionDef = visit_FunctionDef

    def visit_Match(self, node):
        return node


def lift_module(mod):
    """Re-execute `mod` from its current source with lifted string literals (idempotent)."""
    if mod.__dict__.get("__symx_lifted__"):
        return mod
    src = inspect.getsource(mod)
    tree = _Lift().visit(ast.parse(src))
    ast.fix_missing_locations(tree)
    code = compile(tree, mod.__file__, "exec")
    ns = mod.__dict__
    ns["__symx_K__"] = KStr
    ns["__symx_fstr__"] = fstr
    exec(code, ns)
    for k, v in list(ns.items()):
        if type(v) is str and not k.startswith("__"):
            ns[k] = KStr(v)
    ns["__symx_lifted__"] = True
    return mod
