"""Bounded symbolic strings for C19: a SymStr is a python list of characters, each a concrete
int code point or a SymInt in 0..255; the *length is concrete per path* (operations whose
result length depends on symbolic data fork on it, so all lengths are covered).

Contract models of the builtins (Python language reference):
  hex(n)            sign, '0x', minimal lower-case digits
  int(s, 16)        surrounding whitespace, optional sign, optional 0x/0X, digits of either case,
                    single underscores between digits; ValueError otherwise
  format(n, spec)   specs [[fill]align][sign][#][0][width][type] with type in x X d b o (subset)
"""
from . import core
from .core import SymInt, SymBool, Unsupported, ctx

WS = (9, 10, 11, 12, 13, 28, 29, 30, 31, 32, 0x85, 0xA0)


def _code(ch):
    return ord(ch) if isinstance(ch, str) else ch


class SymStr:
    _symx_symbolic = True
    __hash__ = None

    def __init__(self, chars):
        self.c = [_code(x) for x in chars]

    @staticmethod
    def of(x):
        if isinstance(x, SymStr):
            return x
        if isinstance(x, str):
            return SymStr([ord(ch) for ch in x])
        raise TypeError(x)

    def concrete(self):
        if all(isinstance(x, int) for x in self.c):
            return "".join(chr(x) for x in self.c)
        return None

    def _maybe(self):
        s = self.concrete()
        return s if s is not None else self

    def __len__(self):
        return len(self.c)

    def __iter__(self):
        # short strings: iteration yields real characters by forking over each character's feasible values, so that
        # table lookups / dict keys / str methods on single characters run as in Python (22^len paths for hex digits)
        if len(self.c) <= getattr(core._CTX, "str_iter_concrete", 0):
            for x in self.c:
                yield chr(x.__index__() if isinstance(x, SymInt) else x)
            return
        for x in self.c:
            yield SymStr([x])._maybe()

    def __getitem__(self, k):
        if isinstance(k, slice):
            for b in (k.start, k.stop, k.step):
                if isinstance(b, SymInt):
                    k = slice(*(x.__index__() if isinstance(x, SymInt) else x for x in (k.start, k.stop, k.step)))
                    break
            return SymStr(self.c[k])._maybe()
        if isinstance(k, SymInt):
            k = k.__index__()
        return SymStr([self.c[k]])._maybe()

    def __add__(self, o):
        return SymStr(self.c + SymStr.of(o).c)._maybe()

    def __radd__(self, o):
        return SymStr(SymStr.of(o).c + self.c)._maybe()

    def __mul__(self, n):
        return SymStr(self.c * n)._maybe()

    def __eq__(self, o):
        if not isinstance(o, (str, SymStr)):
            return False
        o = SymStr.of(o)
        if len(o.c) != len(self.c):
            return False
        return core.And(*[a == b for a, b in zip(self.c, o.c)])

    def __ne__(self, o):
        return core.Not(self.__eq__(o))

    def __repr__(self):
        return "<SymStr len=%d>" % len(self.c)

    __str__ = __repr__

    def __format__(self, spec):
        return "<SymStr>"

    def __bool__(self):
        return len(self.c) > 0

    def __contains__(self, sub):
        sub = SymStr.of(sub)
        n, m = len(self.c), len(sub.c)
        for i in range(0, n - m + 1):
            if bool(core.And(*[self.c[i + j] == sub.c[j] for j in range(m)])):
                return True
        return False

    # ---- case
    def lower(self):
        return SymStr([_lower(x) for x in self.c])._maybe()

    def upper(self):
        return SymStr([_upper(x) for x in self.c])._maybe()

    casefold = lower

    # ---- strip family (forks on each boundary character)
    def _isin(self, x, chars):
        if chars is None:
            return core.Or(*[x == w for w in WS])
        return core.Or(*[x == ord(ch) for ch in chars])

    def lstrip(self, chars=None):
        i = 0
        while i < len(self.c) and bool(self._isin(self.c[i], chars)):
            i += 1
        return SymStr(self.c[i:])._maybe()

    def rstrip(self, chars=None):
        n = len(self.c)
        while n > 0 and bool(self._isin(self.c[n - 1], chars)):
            n -= 1
        return SymStr(self.c[:n])._maybe()

    def strip(self, chars=None):
        r = self.lstrip(chars)
        return r.rstrip(chars) if isinstance(r, SymStr) else r.rstrip(chars)

    def startswith(self, p):
        p = SymStr.of(p)
        if len(p.c) > len(self.c):
            return False
        return bool(core.And(*[a == b for a, b in zip(self.c, p.c)]))

    def endswith(self, p):
        p = SymStr.of(p)
        if len(p.c) > len(self.c):
            return False
        return bool(core.And(*[a == b for a, b in zip(self.c[len(self.c) - len(p.c):], p.c)]))

    def removeprefix(self, p):
        return SymStr(self.c[len(p):])._maybe() if self.startswith(p) else self

    def removesuffix(self, p):
        return SymStr(self.c[:len(self.c) - len(p)])._maybe() if p and self.endswith(p) else self

    def zfill(self, w):
        if len(self.c) >= w:
            return self
        if self.c and bool(core.Or(self.c[0] == ord("+"), self.c[0] == ord("-"))):
            return SymStr([self.c[0]] + [ord("0")] * (w - len(self.c)) + self.c[1:])
        return SymStr([ord("0")] * (w - len(self.c)) + self.c)

    def rjust(self, w, fill=" "):
        return SymStr([ord(fill)] * max(0, w - len(self.c)) + self.c)._maybe()

    def ljust(self, w, fill=" "):
        return SymStr(self.c + [ord(fill)] * max(0, w - len(self.c)))._maybe()

    def replace(self, a, b, count=-1):
        if len(a) != 1:
            raise Unsupported("SymStr.replace with multi-character pattern")
        out = []
        for x in self.c:
            if bool(x == ord(a)):
                out.extend(ord(ch) for ch in b)
            else:
                out.append(x)
        return SymStr(out)._maybe()

    def encode(self, *a):
        raise Unsupported("SymStr.encode")


def _lower(x):
    if isinstance(x, int):
        return ord(chr(x).lower()) if len(chr(x).lower()) == 1 else x
    return core.ite(core.And(x >= 65, x <= 90), x + 32, x)


def _upper(x):
    if isinstance(x, int):
        return ord(chr(x).upper()) if len(chr(x).upper()) == 1 else x
    return core.ite(core.And(x >= 97, x <= 122), x - 32, x)


# --------------------------------------------------------------------------------------
def _digit_char(d, upper=False):
    """character code of a hex digit value 0..15 (SymInt or int)."""
    a = 65 if upper else 97
    if isinstance(d, int):
        return 48 + d if d < 10 else a + d - 10
    return core.ite(d < 10, d + 48, d + (a - 10))


def _ndigits(n, bits_per_digit, maxdigits):
    """fork on the number of digits of n >= 0 in base 2^bits_per_digit."""
    if isinstance(n, int):
        return max(1, -(-n.bit_length() // bits_per_digit))
    for nd in range(1, maxdigits + 1):
        if bool(n < (1 << (bits_per_digit * nd))):
            return nd
    raise Unsupported("integer wider than %d digits" % maxdigits)


def digits_of(n, bits_per_digit, upper=False):
    maxd = -(-ctx().width // bits_per_digit)
    nd = _ndigits(n, bits_per_digit, maxd)
    out = []
    for k in range(nd - 1, -1, -1):
        d = (n >> (bits_per_digit * k)) & ((1 << bits_per_digit) - 1)
        out.append(_digit_char(d, upper))
    return out


def hex_model(n):
    """hex(n)"""
    if isinstance(n, bool) or (isinstance(n, int)):
        return hex(n)
    if not isinstance(n, SymInt):
        return hex(n)   # real builtin raises TypeError as in Python
    if n.lo < 0:
        if bool(n < 0):
            return SymStr([ord("-"), ord("0"), ord("x")] + digits_of(-n, 4))
        n = core.refine(n, 0, n.hi)
    return SymStr([ord("0"), ord("x")] + digits_of(n, 4))._maybe()


def oct_model(n):
    if not isinstance(n, SymInt):
        return oct(n)
    raise Unsupported("oct of SymInt")


def bin_model(n):
    if not isinstance(n, SymInt):
        return bin(n)
    if n.lo < 0:
        raise Unsupported("bin of possibly negative SymInt")
    return SymStr([ord("0"), ord("b")] + digits_of(n, 1))._maybe()


def _dval(x, base):
    """(is_digit, value) of a character code in the given base (<= 16)."""
    isd = core.And(x >= 48, x <= min(57, 48 + base - 1))
    val = x - 48
    if base > 10:
        lo_ok = core.And(x >= 97, x <= 97 + base - 11)
        up_ok = core.And(x >= 65, x <= 65 + base - 11)
        val = core.ite(isd, x - 48, core.ite(lo_ok, x - 87, x - 55))
        isd = core.Or(isd, lo_ok, up_ok)
    return isd, val


def int_model(x=0, base=None):
    """int(x) / int(s, base) for SymInt, SymStr and concrete values."""
    if isinstance(x, SymInt):
        if base is not None:
            raise TypeError("int() can't convert non-string with explicit base")
        return x
    if getattr(x, "_symx_symbolic", False) and not isinstance(x, SymStr):
        from . import floats as _sf
        return _sf.to_int(x)
    if not isinstance(x, SymStr):
        return int(x) if base is None else int(x, base)
    b = 10 if base is None else base
    if isinstance(b, SymInt):
        b = b.__index__()
    if b not in (2, 8, 10, 16):
        raise Unsupported("int(SymStr, base=%r)" % (b,))
    s = x.strip()
    c = SymStr.of(s).c
    err = ValueError("invalid literal for int() with base %d: <symbolic>" % b)
    i, n = 0, len(c)
    neg = False
    if i < n and bool(core.Or(c[i] == ord("+"), c[i] == ord("-"))):
        neg = bool(c[i] == ord("-"))
        i += 1
    pre = {16: (ord("x"), ord("X")), 8: (ord("o"), ord("O")), 2: (ord("b"), ord("B"))}.get(b)
    if pre and i + 1 < n and bool(c[i] == 48) and bool(core.Or(c[i + 1] == pre[0], c[i + 1] == pre[1])):
        i += 2
        if i < n and bool(c[i] == ord("_")):
            i += 1
    if i >= n:
        raise err
    v = 0
    prev_us = True   # an underscore may not come first
    first = True
    for k in range(i, n):
        ch = c[k]
        if bool(ch == ord("_")):
            if prev_us:
                raise err
            prev_us = True
            continue
        isd, val = _dval(ch, b)
        if not bool(isd):
            raise err
        v = v * b + val
        prev_us = False
        first = False
    if prev_us:
        raise err
    return -v if neg else v


def format_int(n, spec):
    """format(n, spec) for a SymInt and the common integer specs."""
    import re
    m = re.fullmatch(r"(?:(.)?([<>=^]))?([+\- ])?(#)?(0)?(\d+)?([,_])?([xXdbon]?)", spec)
    if not m:
        raise Unsupported("format spec %r" % spec)
    fill, align, sign, alt, zero, width, grp, typ = m.groups()
    if grp:
        raise Unsupported("format grouping")
    if n.lo < 0:
        if bool(n < 0):
            raise Unsupported("format of negative SymInt")
        n = core.refine(n, 0, n.hi)
    if typ in ("x", "X"):
        body = digits_of(n, 4, upper=(typ == "X"))
        prefix = [48, ord(typ)] if alt else []
    elif typ == "b":
        body = digits_of(n, 1)
        prefix = [48, ord("b")] if alt else []
    elif typ == "o":
        body = digits_of(n, 3)
        prefix = [48, ord("o")] if alt else []
    else:
        raise Unsupported("decimal formatting of a SymInt")
    sg = [ord(sign)] if sign in ("+", " ") else []
    width = int(width) if width else 0
    total = len(sg) + len(prefix) + len(body)
    pad = max(0, width - total)
    if zero and not align:
        fill, align = "0", "="
    fill = ord(fill) if fill else 32
    align = align or ">"
    if align == "=":
        out = sg + prefix + [fill] * pad + body
    elif align == ">":
        out = [fill] * pad + sg + prefix + body
    elif align == "<":
        out = sg + prefix + body + [fill] * pad
    else:
        out = [fill] * (pad // 2) + sg + prefix + body + [fill] * (pad - pad // 2)
    return SymStr(out)._maybe()


def install(c):
    """Activate the string model in this context (SymInt.__format__ / __mod__ formatting)."""
    c.strmodel = True


def str_model(x=""):
    if isinstance(x, SymStr):
        return x
    if isinstance(x, SymInt):
        raise Unsupported("str(SymInt) (decimal rendering)")
    return str(x)


_orig_format = SymInt.__format__


def _symint_format(self, spec):
    c = core._CTX
    if c is not None and getattr(c, "strmodel", False) and spec:
        # __format__ must return a real str, so f-strings / str.format cannot yield a SymStr
        raise Unsupported("f-string / str.format of a SymInt with spec %r (only format() and hex() are modelled)" % spec)
    return _orig_format(self, spec)


SymInt.__format__ = _symint_format


class FormatStr(str):
    """str subclass so that '%x' % SymInt goes through the model (used when the module's
    string constants cannot be intercepted: only via format_model)."""


def format_model(value, spec=""):
    if isinstance(value, SymInt):
        return format_int(value, spec) if spec else str_model(value)
    return format(value, spec)
