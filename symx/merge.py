"""Function-level merging: when a merged function is called with symbolic arguments, all of
its syntactic paths are explored in a nested frame (no solver calls; pruned by simplification
and intervals), list arguments it mutates are snapshotted/restored, and the call returns the
decision-tree `ite` of the results and side effects.  Paths that raise become an error
condition on which the *calling* frame decides (with the solver in the outermost frame).
It is still the real function body that runs at every call site.
"""
import z3
from . import core
from .core import SymInt, SymBool, Frame, PathAbort, Unsupported


def is_symbolic(v, depth=0):
    if isinstance(v, (SymInt, SymBool)):
        return True
    if getattr(v, "_symx_symbolic", False):
        return True
    if depth < 3 and isinstance(v, (list, tuple)):
        return any(is_symbolic(x, depth + 1) for x in v)
    return False


def _key(v):
    if isinstance(v, SymInt):
        return ("i", v.e.get_id(), v.lo, v.hi)
    if isinstance(v, SymBool):
        return ("b", v.e.get_id())
    if hasattr(v, "_symx_key"):
        return v._symx_key()
    if isinstance(v, (list, tuple)):
        return (type(v).__name__,) + tuple(_key(x) for x in v)
    if isinstance(v, (int, float, str, bool, type(None))):
        return ("c", type(v).__name__, v)
    return ("o", id(v))


def merge_values(pairs):
    """pairs: [(z3 cond, value)], conds mutually exclusive and exhaustive on the path."""
    vals = [v for _, v in pairs]
    v0 = vals[0]
    if all(_same(v0, v) for v in vals[1:]):
        return v0
    if all(v is None for v in vals):
        return None
    if all(isinstance(v, (list, tuple)) for v in vals):
        n = len(v0)
        if any(len(v) != n for v in vals):
            raise Unsupported("merging sequences of different length")
        out = [merge_values([(c, v[i]) for c, v in pairs]) for i in range(n)]
        return out if isinstance(v0, list) else tuple(out)
    if all(isinstance(v, (bool, SymBool)) for v in vals):
        res = vals[-1]
        for c, v in reversed(pairs[:-1]):
            res = core.ite(core.SymBool(c), v, res)
        return res
    if all(isinstance(v, (int, SymInt)) and not isinstance(v, bool) for v in vals):
        res = vals[-1]
        for c, v in reversed(pairs[:-1]):
            res = core.ite(core.SymBool(c), v, res)
        return res
    fm = core.ctx().float_merge if hasattr(core.ctx(), "float_merge") else None
    if fm is not None:
        r = fm(pairs)
        if r is not NotImplemented:
            return r
    raise Unsupported("cannot merge values of types %s" % sorted({type(v).__name__ for v in vals}))


def _same(a, b):
    if a is b:
        return True
    if type(a) is not type(b):
        return False
    if isinstance(a, (int, float, str, bool)):
        return a == b and (not isinstance(a, float) or repr(a) == repr(b))
    if isinstance(a, SymInt):
        return a.e.get_id() == b.e.get_id()
    if isinstance(a, SymBool):
        return a.e.get_id() == b.e.get_id()
    if isinstance(a, (list, tuple)):
        return len(a) == len(b) and all(_same(x, y) for x, y in zip(a, b))
    if hasattr(a, "_symx_key"):
        return a._symx_key() == b._symx_key()
    return False


def merged(fn, name=None):
    """Wrap `fn` so that calls with symbolic arguments are merged."""
    label = name or getattr(fn, "__qualname__", repr(fn))

    def wrapper(*args):
        c = core._CTX
        if c is None or not is_symbolic(args):
            return fn(*args)
        return _merge_call(c, fn, label, args)

    wrapper.__wrapped__ = fn
    wrapper.__name__ = getattr(fn, "__name__", "merged")
    wrapper._symx_merged = True
    return wrapper


def _merge_call(c, fn, label, args):
    memo = c.__dict__.setdefault("merge_memo", {})
    key = (label,) + tuple(_key(a) for a in args)
    hit = memo.get(key)
    lists = [i for i, a in enumerate(args) if isinstance(a, list)]
    if hit is None:
        snap = {i: list(args[i]) for i in lists}
        outcomes = []
        work = [[]]
        c.stats.merged_calls += 1
        while work:
            prefix = work.pop()
            for i in lists:
                args[i][:] = snap[i]
            fr = Frame(prefix, False)
            c.frames.append(fr)
            aborted = False
            exc = None
            r = None
            try:
                try:
                    r = fn(*args)
                except PathAbort:
                    aborted = True
                except (Unsupported, core.Inconclusive):
                    raise
                except Exception as e:  # the function's own exceptions
                    exc = e
            finally:
                c.frames.pop()
            work.extend(reversed(fr.alts))
            if aborted:
                continue
            c.stats.merged_paths += 1
            cond = z3.And(*fr.conds) if len(fr.conds) > 1 else (fr.conds[0] if fr.conds else z3.BoolVal(True))
            outcomes.append((cond, r, exc, {i: list(args[i]) for i in lists}))
        for i in lists:
            args[i][:] = snap[i]
        normal = [(cd, r, st) for cd, r, e, st in outcomes if e is None]
        errs = [(cd, e) for cd, r, e, st in outcomes if e is not None]
        # error paths that contradict the input validity predicates alone never need a per-path query
        errs = [(cd, e) for cd, e in errs if not c.globally_infeasible(cd)]
        if normal:
            mr = merge_values([(cd, r) for cd, r, st in normal])
            ml = {i: merge_values([(cd, st[i]) for cd, r, st in normal]) for i in lists}
        else:
            mr, ml = None, None
        hit = (mr, ml, errs, bool(normal), [_key(x) for x in ((mr,) if normal else ())])
        memo[key] = hit
        # keep z3 asts alive for the ids in the key
        c.__dict__.setdefault("merge_keep", []).append((args, outcomes))
    mr, ml, errs, has_normal, _ = hit
    for cd, e in errs:
        if c.branch(cd):
            raise e
    if not has_normal:
        raise PathAbort()
    for i in lists:
        args[i][:] = ml[i]
    return mr
