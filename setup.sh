#!/bin/bash
# Offline set-up: nothing to build; verify the tooling the checks rely on.
set -e
cd "$(dirname "$0")"
python3-vt -c "import z3; print('z3', z3.get_version_string())"
PYTHONPATH=/repo python3-vt -c "import a5; print('a5 importable under python3-vt')"
/venv/bin/python -c "import a5; print('a5 importable under /venv')"
mkdir -p evidence replays
