"""C17 - every API call is a pure function of its arguments.  The quantifier is over histories; the
pre-state is made symbolic (entry-state independence), cache keys are checked on symbolic two-call
histories, and aliasing/mutation is checked on every symbolic path."""
import copy
import importlib
import z3
from symx import core as sx
from symx import floats as sf
from symx import shared
from .common import Job, REPO, VERIF
from . import sharedsym, shapes
from . import c16
from .targets import unit_targets

BOUNDS = {"entry state": "same unit targets as C16: every shared numeric cell starts as an arbitrary (fresh symbolic) residue; two runs with "
                         "independent residues must agree",
          "cache keys": "two-call histories with independent symbolic (index, reflected, squashed, origin) on get_face_triangle / "
                        "get_spherical_triangle with the compute functions replaced by injective tokens of their arguments; "
                        "_get_triangle_constants on two symbolic spherical triangles against a cold instance",
          "integer API histories": "f(x) then g(y) with independent symbolic cells x, y (resolutions from a small set) for the exported hierarchy "
                                   "functions; g(y) must equal g(y) on the restored cold state; every discovered module-level container is "
                                   "snapshotted/restored",
          "float API histories": "ordered pairs of concrete API calls (all 12 faces, poles, antimeridian) - warm result vs cold state (replay: fresh process)",
          "aliasing": "arguments unchanged / result fresh / mutating the result does not affect the next call, on every symbolic path of "
                      "compact, uncompact, cell_to_children, cell_to_boundary"}
OUTSIDE = ["histories longer than two calls (insert-only key-determined caches: a collision needs two keys)",
           "caches keyed by rendered strings of ids (str/format of a symbolic int is not modelled: distinct terms render distinctly)"]
STUBS = ["libm as uninterpreted functions on symbolic reals", "DodecahedronProjection._get_face_triangle/_get_reflected_face_triangle/"
         "_get_spherical_triangle replaced by token functions of their arguments in the cache-key harness",
         "index-addressed cache lists replaced by a symbolic store (reads fork on equality with earlier write indices)"]
ASSUMPTIONS = ["'fresh interpreter' = import-time state of every discovered shared container (restored between runs); the replay runs the "
               "last call alone in a fresh subprocess"]


# ---------------------------------------------------------------------------------- entry state
def h_entry(c, label, mn, qual, inputs="symbolic"):
    sf.install_float_mode(c, "real")
    c.real_mul_uf = True
    prov = c16._provider(c, inputs)
    undo_math = sharedsym.install_uf_math()
    found = shared.discover()
    hooked, undo = shared.hook_all(found)
    clock = shared.Clock(REPO)
    try:
        mk = (lambda: sharedsym.make_call(c, mn, qual)) if prov is None else (lambda: sharedsym._make_call(prov, mn, qual))
        res = []
        for run in range(2):
            for _, h in hooked:
                h._symx_entry = None          # a new, independent residue for this run
            call, args = mk()
            (k, r), st = c16._run(call, clock, c, "entry")
            res.append((k, r, [list(a) for a in args if isinstance(a, list)], st))
    finally:
        shared.end()
        undo()
        undo_math()
    (k1, r1, o1, st1), (k2, r2, o2, st2) = res
    info = {"target": label, "entry_reads": [list(x) for x in st1.entry_reads[:6]], "candidate": True}
    if k1 != k2:
        c.fail("same-outcome-for-every-entry-state", info=info)
        return
    if k1 == "raise":
        c.prove(r1 == r2, "same-exception-for-every-entry-state", info=info)
        return
    c.prove(sharedsym.same((r1, o1), (r2, o2)), "result-independent-of-entry-state", info=info)


# ---------------------------------------------------------------------------------- cache keys
class SymStore:
    """index-addressed cache list with symbolic indices: a read forks on equality with the indices of
    earlier writes (newest first) and returns that write's value, else None (cold slot)."""

    def __init__(self):
        self.writes = []

    def __len__(self):
        return 1 << 20

    def append(self, v):
        pass

    def __getitem__(self, i):
        for wi, v in reversed(self.writes):
            if bool(i == wi):
                return v
        return None

    def __setitem__(self, i, v):
        self.writes.append((i, v))


def h_cache_face(c):
    from a5.projections.dodecahedron import DodecahedronProjection
    d = DodecahedronProjection()
    d.face_triangles = SymStore()
    d._get_face_triangle = lambda idx: ("FT", idx)
    d._get_reflected_face_triangle = lambda idx, sq=False: ("RFT", idx, sq)
    args = []
    for n in (1, 2):
        i = c.int("index%d" % n, 0, 9)
        refl = bool(c.bool("reflected%d" % n))
        sq = bool(c.bool("squashed%d" % n))
        args.append((i, refl, sq))
    d.get_face_triangle(*args[0])
    r2 = d.get_face_triangle(*args[1])
    i, refl, sq = args[1]
    exp = ("RFT", i, sq) if refl else ("FT", i)
    c.prove(_tok_eq(r2, exp), "second-call-returns-the-triangle-of-its-own-key")


def _tok_eq(a, b):
    if len(a) != len(b) or a[0] != b[0]:
        return False
    return sx.And(*[(x == y) if not isinstance(x, bool) or not isinstance(y, bool) else (x == y) for x, y in zip(a[1:], b[1:])])


def h_cache_spherical(c):
    from a5.projections.dodecahedron import DodecahedronProjection
    d = DodecahedronProjection()
    d.spherical_triangles = SymStore()
    d._get_spherical_triangle = lambda idx, origin_id, reflected=False: ("ST", idx, origin_id, reflected)
    args = []
    for n in (1, 2):
        i = c.int("index%d" % n, 0, 9)
        o = c.int("origin%d" % n, 0, 11)
        refl = bool(c.bool("reflected%d" % n))
        args.append((i, o, refl))
    d.get_spherical_triangle(*args[0])
    r2 = d.get_spherical_triangle(*args[1])
    c.prove(_tok_eq(r2, ("ST",) + args[1]), "second-call-returns-the-triangle-of-its-own-key")


def h_cache_constants(c):
    """_inverse_triangle_cache is keyed by the nine vertex coordinates; the constants are computed inline (no
    separate compute function to replace by a token) and their symbolic comparison is non-linear real arithmetic
    that z3 did not finish (941 s), so this one is a concrete differential run over structured triangle pairs
    (shared vertices, permuted vertices): warm instance vs cold instance.  Not solver-decided; reported as such."""
    import random
    import math
    from a5.projections.polyhedral import PolyhedralProjection
    rnd = random.Random(5)

    def uv():
        v = [rnd.gauss(0, 1) for _ in range(3)]
        n = math.sqrt(sum(x * x for x in v))
        return tuple(x / n for x in v)
    ok = True
    for k in range(300):
        A, B, C = uv(), uv(), uv()
        T1 = (A, B, C)
        T2 = [(A, uv(), uv()), (uv(), B, C), (B, C, A), (A, C, B), (A, B, uv())][k % 5]
        warm, cold = PolyhedralProjection(), PolyhedralProjection()
        warm._get_triangle_constants(T1)
        if warm._get_triangle_constants(T2) != cold._get_triangle_constants(T2):
            ok = False
    c.prove(ok, "concrete:warm-constants==cold-constants-on-300-structured-triangle-pairs", info={"candidate": True})


# ---------------------------------------------------------------------------------- integer API histories
INT_FUNCS = {
    "cell_to_parent": lambda a5, s, x, rx: s.cell_to_parent(x, max(rx - 2, -1)),
    "cell_to_parent1": lambda a5, s, x, rx: s.cell_to_parent(x),
    "cell_to_children": lambda a5, s, x, rx: s.cell_to_children(x, min(rx + 1, 29)),
    "cell_to_children2": lambda a5, s, x, rx: s.cell_to_children(x, min(rx + 2, 29)),
    "cell_to_children3": lambda a5, s, x, rx: s.cell_to_children(x, min(rx + 3, 29)),
    "get_resolution": lambda a5, s, x, rx: s.get_resolution(x),
    "uncompact": lambda a5, s, x, rx: importlib.import_module("a5.core.compact").uncompact([x], min(rx + 1, 29)),
    "uncompact2": lambda a5, s, x, rx: importlib.import_module("a5.core.compact").uncompact([x], min(rx + 2, 29)),
    "compact": lambda a5, s, x, rx: importlib.import_module("a5.core.compact").compact(s.cell_to_children(x, min(rx + 1, 29))),
    # a call that fails half way (the second cell is finer than the target): must not leave anything behind
    "uncompact_fail": lambda a5, s, x, rx: importlib.import_module("a5.core.compact").uncompact(
        [x, s.cell_to_children(x, min(rx + 2, 29))[0]], min(rx + 1, 28)),
    "is_first_child": lambda a5, s, x, rx: s.is_first_child(x),
    "get_num_cells": lambda a5, s, x, rx: importlib.import_module("a5.core.cell_info").get_num_cells(rx),
}


def _snapshot(found):
    return [(val, copy.copy(val)) for _, _, val in found]


def _restore(snap):
    for val, saved in snap:
        if isinstance(val, list):
            val[:] = saved
        else:
            val.clear()
            val.update(saved)


def h_int_history(c, f, g, rx, ry):
    import a5
    s = shapes.install_symtables()
    from . import compactsym
    compactsym.install()
    found = [t for t in shared.discover() if not t[0].endswith(".origins")]
    snap = _snapshot(found)
    # module-level dicts become HookedDicts: lookups with symbolic keys are decided by the solver even when the stored key
    # is concrete (python's hashing would otherwise never compare them)
    hooked, undo_hooks = shared.hook_all([t for t in found if isinstance(t[2], dict)])
    snap = snap + _snapshot([(n, None, h) for n, h in hooked])
    _, x = shapes.symid(c, "x", rx)
    _, y = shapes.symid(c, "y", ry)
    try:
        try:
            INT_FUNCS[f](a5, s, x, rx)
        except ValueError:
            pass
        try:
            warm = ("ok", INT_FUNCS[g](a5, s, y, ry))
        except ValueError as ex:
            warm = ("raise", "ValueError")
        _restore(snap)
        try:
            cold = ("ok", INT_FUNCS[g](a5, s, y, ry))
        except ValueError as ex:
            cold = ("raise", "ValueError")
    finally:
        _restore(snap)
        undo_hooks()
    if warm[0] != cold[0]:
        c.fail("history-independent-outcome", info={"f": f, "g": g})
        return
    c.prove(sharedsym.same(warm[1], cold[1]), "g(y)-after-f(x)==g(y)-on-cold-state", info={"f": f, "g": g})


# ---------------------------------------------------------------------------------- origin table histories
def h_origin_history(c, fn):
    """segment_to_quintant / quintant_to_segment: the call for (face2, x2) after a call for (face1, x1) equals the call
    on the restored cold state (all 12 x 12 face pairs by forking over the real origins table, x symbolic 0..4)."""
    import a5.core.origin as og
    snap = shared.snapshot_state()
    f1 = c.int("face1", 0, 11)
    f2 = c.int("face2", 0, 11)
    o1, o2 = og.origins[f1], og.origins[f2]
    x1 = c.int("x1", 0, 4)
    x2 = c.int("x2", 0, 4)
    func = getattr(og, fn)
    try:
        func(x1, o1)
        warm = func(x2, o2)
        shared.restore_state(snap)
        cold = func(x2, o2)
    finally:
        shared.restore_state(snap)
    c.prove(sx.And(warm[0] == cold[0], warm[1] == cold[1]), "origin-table:second-call==cold-call", info={"fn": fn})


# ---------------------------------------------------------------------------------- singleton two-call histories
def h_singleton_history(c, f, g):
    """g(y) on the shared module-level singleton after f(x) (independent symbolic angles) vs g(y) on a fresh
    instance of the same class: catches memoisation keyed on less than (method, argument)."""
    sf.install_float_mode(c, "real")
    c.real_mul_uf = True
    undo_math = sharedsym.install_uf_math()
    snap = shared.snapshot_state()
    try:
        import a5.core.coordinate_transforms as ct
        warm = ct.authalic
        cold = type(warm).__mro__[1]() if getattr(type(warm), "_symx_hooked", False) else type(warm)()
        x = sf.real_input(c, "x", -2, 2)
        y = sf.real_input(c, "y", -2, 2)
        getattr(warm, f)(x)
        rw = getattr(warm, g)(y)
        rc = getattr(cold, g)(y)
    finally:
        undo_math()
        shared.restore_state(snap)
    c.prove(sharedsym.same(rw, rc), "singleton:g(y)-after-f(x)==g(y)-on-a-fresh-instance", info={"f": f, "g": g, "candidate": True})


def h_face_history(c, r, S):
    """the same (S, resolution) on every ordered pair of (face, segment): warm result of the second == its cold
    result (concrete differential run over all 60 x 59 pairs; catches per-cell memos keyed without the face)."""
    import a5
    from a5.core.serialization import serialize
    from a5.core.utils import A5Cell
    from a5.core.origin import origins
    cells = [serialize(A5Cell(origin=origins[f], segment=g, S=S, resolution=r)) for f in range(12) for g in range(5)]
    cold = {}
    for x in cells:
        cold[x] = (a5.cell_to_lonlat(x), a5.cell_to_boundary(x, {"segments": 1}))
        # between cold evaluations call something unrelated so that a 'most recent' memo cannot serve x itself
        a5.cell_to_lonlat(a5.lonlat_to_cell((1.0, 2.0), 7))
    bad = None
    for x in cells:
        for y in cells:
            if x == y:
                continue
            a5.cell_to_lonlat(x)
            if a5.cell_to_lonlat(y) != cold[y][0]:
                bad = (x, y)
            a5.cell_to_boundary(x, {"segments": 1})
            if a5.cell_to_boundary(y, {"segments": 1}) != cold[y][1]:
                bad = (x, y)
    c.prove(bad is None, "api:same-index-on-another-face:warm==cold", info={"candidate": True, "pair": bad})


# ---------------------------------------------------------------------------------- long concrete histories
def _long_calls(kind, seed):
    from .c17_long import long_calls
    return long_calls(kind, seed)


def _unused_long_calls(kind, seed):
    import random
    import a5
    import a5.core.hilbert as hh
    rnd = random.Random(seed + 17)
    calls = []
    if kind == "hilbert":
        for o in ("uv", "vu", "uw", "wu", "vw", "wv"):
            for h in (1, 2, 3, 5, 9, 11, 12, 19, 21, 28):
                for s0 in list(range(0, 24)) + [4 ** h - 1, 4 ** h // 2]:
                    if s0 < 4 ** h:
                        calls.append(("s_to_anchor(%d,%d,%s)" % (s0, h, o),
                                      lambda s0=s0, h=h, o=o: (lambda a: (a.k, tuple(a.offset), tuple(a.flips)))(hh.s_to_anchor(s0, h, o))))
    else:
        pts = [(rnd.uniform(-180, 180), rnd.uniform(-90, 90)) for _ in range(120)]
        pts += [(rnd.uniform(-180, 180), rnd.choice((-1, 1)) * rnd.uniform(84, 90)) for _ in range(120)]
        pts += [(rnd.uniform(-180, 180), rnd.choice((-1, 1)) * rnd.uniform(80, 90)) for _ in range(160)]
        for p in pts:
            for r in (0, 1, 3, 9, 24):
                calls.append(("lonlat_to_cell(%r,%d)" % (p, r), lambda p=p, r=r: a5.lonlat_to_cell(p, r)))
    return calls


def h_long_history(c, kind, seed=0):
    """concrete differential run: every call evaluated from the import-time module state (cold), then all calls in one
    long history (twice, second time reversed) - each result must equal its cold value.  Not solver-decided."""
    calls = _long_calls(kind, seed)
    snap = shared.snapshot_state()
    cold = []
    for name, fn in calls:
        shared.restore_state(snap)
        cold.append(fn())
    shared.restore_state(snap)
    badcall = None
    for order in (range(len(calls)), reversed(range(len(calls)))):
        for i in order:
            if calls[i][1]() != cold[i]:
                badcall = calls[i][0]
    shared.restore_state(snap)
    c.prove(badcall is None, "long-history:every-result==its-cold-value(%s)" % kind, info={"candidate": True, "call": badcall, "kind": kind})


# ---------------------------------------------------------------------------------- float API histories
def h_api_history(c, i, j):
    import a5
    found = shared.discover()
    snap = _snapshot(found)
    na, aa = c16.API_CALLS[i]
    nb, ab = c16.API_CALLS[j]
    try:
        argsb = [c16.resolve_arg(a5, a) for a in ab]
        argsa = [c16.resolve_arg(a5, a) for a in aa]
        _restore(snap)
        cold = getattr(a5, nb)(*copy.deepcopy(argsb))
        _restore(snap)
        getattr(a5, na)(*copy.deepcopy(argsa))
        warm = getattr(a5, nb)(*copy.deepcopy(argsb))
        warm2 = getattr(a5, nb)(*copy.deepcopy(argsb))
    finally:
        pass
    c.prove(warm == cold and warm2 == cold, "api:warm-result==cold-result-bit-for-bit", info={"i": i, "j": j, "candidate": True})


# ---------------------------------------------------------------------------------- aliasing
def h_alias(c, which, r):
    import a5
    s = shapes.install_symtables()
    from . import compactsym
    _, cm = compactsym.install()
    _, x = shapes.symid(c, "x", r)
    if which == "cell_to_children":
        K1 = s.cell_to_children(x, min(r + 1, 29))
        snap = list(K1)
        K1.append(0)
        K1[0] = 12345
        K2 = s.cell_to_children(x, min(r + 1, 29))
        c.prove(K2 is not K1 and sharedsym.same(K2, snap), "mutating-the-result-does-not-affect-the-next-call")
        same_r = s.cell_to_children(x, r)
        same_r.append(1)
        c.prove(sharedsym.same(s.cell_to_children(x, r), [x]), "children-at-own-resolution-is-a-fresh-list")
    elif which == "uncompact":
        arg = [x]
        U1 = cm.uncompact(arg, min(r + 1, 29))
        snap = list(U1)
        c.prove(len(arg) == 1 and arg[0] is x and U1 is not arg, "argument-untouched-and-result-fresh")
        U1[:] = []
        c.prove(sharedsym.same(cm.uncompact(arg, min(r + 1, 29)), snap), "mutating-the-result-does-not-affect-the-next-call")
        U0 = cm.uncompact(arg, r)
        c.prove(U0 is not arg, "uncompact-to-own-resolution-returns-a-fresh-list")
    elif which == "compact":
        arg = s.cell_to_children(x, min(r + 1, 29))
        before = list(arg)
        Y1 = cm.compact(arg)
        c.prove(len(arg) == len(before) and all(a is b for a, b in zip(arg, before)) and Y1 is not arg, "argument-untouched-and-result-fresh")
        snap = list(Y1)
        Y1.append(7)
        c.prove(sharedsym.same(cm.compact(arg), snap), "mutating-the-result-does-not-affect-the-next-call")
        single = [x]
        Ys = cm.compact(single)
        c.prove(Ys is not single, "compact-of-a-single-cell-returns-a-fresh-list")


def h_alias_boundary(c, idx):
    import a5
    cell = c16.resolve_arg(a5, "cell:(%r,%r)@%d" % ((c16.FACE_POINTS + [(179.9, 10.0)])[idx % 13] + ((idx * 7) % 12,)))
    for opts in ({"segments": 2, "closed_ring": True}, {"closed_ring": False}, {}, {"segments": "auto"}):
        o = dict(opts)
        b1 = a5.cell_to_boundary(cell, o)
        c.prove(o == opts, "options-dict-not-modified")
        snap = list(b1)
        b1.reverse()
        b1.append((0.0, 0.0))
        b2 = a5.cell_to_boundary(cell, o)
        c.prove(b2 == snap and b2 is not b1, "mutating-the-ring-does-not-affect-the-next-call")


def jobs(tier, seed):
    js = []
    o = {"logic": None, "max_paths": 600, "query_timeout_ms": 30000, "feas_timeout_ms": 1500, "unknown_is_feasible": True}
    for label, mn, qual in unit_targets():
        composite = label.startswith(("SphericalPolygonShape", "PolyhedralProjection", "PentagonShape.contains_point"))
        if not composite:
            js.append(Job("entry[%s]" % label, "h_entry", {"label": label, "mn": mn, "qual": qual}, dict(o), weight=1))
        else:
            for sd in ((1, 1001, 2001) if tier == "quick" else (1, 2, 3, 1001, 1002, 2001)):
                js.append(Job("entry[%s;inputs=%d]" % (label, sd), "h_entry", {"label": label, "mn": mn, "qual": qual, "inputs": sd}, dict(o), weight=3))
    js.append(Job("cache-keys[face_triangles]", "h_cache_face", {}, {"max_paths": 20000}, weight=5))
    js.append(Job("cache-keys[spherical_triangles]", "h_cache_spherical", {}, {"max_paths": 20000}, weight=5))
    js.append(Job("cache-keys[triangle_constants]", "h_cache_constants", {}, dict(o), weight=5))
    funcs = sorted(INT_FUNCS)
    res_pairs = [(3, 3), (28, 28), (0, 1), (0, 0), (1, 1), (2, 2), (-1, -1)] if tier == "quick" else [(3, 3), (28, 28), (27, 28), (0, 1), (1, 2), (2, 2), (-1, 0), (9, 10)]
    for f in funcs:
        for g in (funcs if tier != "quick" else [f]):
            for rx, ry in res_pairs:
                js.append(Job("history[%s;%s;%d,%d]" % (f, g, rx, ry), "h_int_history", {"f": f, "g": g, "rx": rx, "ry": ry},
                              {"max_paths": 3000}, weight=2))
    # histories across the 12 -> 5 -> 4 aperture changes and between the one- and two-level variants
    kids = ("cell_to_children", "cell_to_children2", "cell_to_children3")
    for f, g in [(a, b) for a in kids for b in kids if not (a == b == "cell_to_children")] + \
            [("uncompact2", "uncompact2"), ("uncompact", "uncompact2"), ("uncompact2", "uncompact"), ("uncompact_fail", "uncompact"),
             ("uncompact_fail", "uncompact2"), ("uncompact_fail", "compact"), ("uncompact_fail", "cell_to_children")]:
        for rx, ry in ((-1, -1), (0, 0), (0, 2), (2, 0), (-1, 2), (1, 3), (-1, 0), (0, -1)):
            js.append(Job("history[%s;%s;%d,%d]" % (f, g, rx, ry), "h_int_history", {"f": f, "g": g, "rx": rx, "ry": ry},
                          {"max_paths": 3000}, weight=2))
    n = len(c16.API_CALLS)
    pairs = [(i, (i * 7 + 3) % n) for i in range(n)] + [(i, i) for i in range(0, n, 3)]
    if tier != "quick":
        pairs = [(i, j) for i in range(n) for j in range(n) if (i + j) % 3 == 0 or i == j]
    for i, j in pairs:
        js.append(Job("api-history[%d,%d]" % (i, j), "h_api_history", {"i": i, "j": j}, {"logic": None}, weight=1))
    for fn in ("segment_to_quintant", "quintant_to_segment"):
        js.append(Job("origin-history[%s]" % fn, "h_origin_history", {"fn": fn}, {"max_paths": 20000}, weight=6))
    for kind in ("hilbert", "lonlat_to_cell"):
        js.append(Job("long-history[%s]" % kind, "h_long_history", {"kind": kind, "seed": seed}, {"logic": None}, weight=20))
    for f in ("forward", "inverse"):
        for g in ("forward", "inverse"):
            js.append(Job("singleton-history[authalic.%s;%s]" % (f, g), "h_singleton_history", {"f": f, "g": g}, dict(o), weight=2))
    import random
    rnd = random.Random(seed)
    for r in ((2, 3, 6) if tier == "quick" else (2, 3, 4, 6, 9, 15, 29)):
        js.append(Job("face-history[r=%d]" % r, "h_face_history", {"r": r, "S": rnd.randrange(4 ** (r - 1))}, {"logic": None}, weight=8))
    for which in ("cell_to_children", "uncompact", "compact"):
        for r in ((0, 1, 2, 9, 28) if tier == "quick" else (-1, 0, 1, 2, 3, 9, 27, 28)):
            js.append(Job("alias[%s,r=%d]" % (which, r), "h_alias", {"which": which, "r": r}, {"max_paths": 3000}, weight=2))
    for idx in range(6 if tier == "quick" else 13):
        js.append(Job("alias[cell_to_boundary,%d]" % idx, "h_alias_boundary", {"idx": idx}, {"logic": None}, weight=1))
    js.extend(selftests(seed))
    return js


_PRE = """
import sys, subprocess, json
sys.path.insert(0, %r)
def bad(sig):
    print("REPRODUCED " + sig); sys.exit(1)
""" % VERIF


def replay(cx):
    p, inp, f = cx["params"], cx["inputs"], cx["func"]
    info = cx.get("info") or {}
    if f == "h_entry":
        # residue of an interfering earlier call = run B first, then A; compare with A on a fresh import
        script = _PRE + """
from checks import replay_sched as rs, targets
import a5
B = rs.default_interferer()
for seed in (1, 2, 3, 1001):
    inp = rs.concrete_inputs(seed)
    call = targets.make_call(inp, %r, %r)[0]
    try: cold = ("ok", rs.snapshot(call()))
    except Exception as ex: cold = ("raise", type(ex).__name__)
    B()
    call = targets.make_call(rs.concrete_inputs(seed), %r, %r)[0]
    try: warm = ("ok", rs.snapshot(call()))
    except Exception as ex: warm = ("raise", type(ex).__name__)
    if not rs._eq(cold, warm): bad("history-dependent:%s")
print("ok")
""" % (p["mn"], p["qual"], p["mn"], p["qual"], p["label"])
        return {"script": script, "description": "entry-state dependence of %s" % p["label"], "candidate": True}
    if f in ("h_cache_face", "h_cache_spherical"):
        if f == "h_cache_face":
            a1 = (inp["index1"], inp["reflected1"], inp["squashed1"])
            a2 = (inp["index2"], inp["reflected2"], inp["squashed2"])
            meth = "get_face_triangle"
        else:
            a1 = (inp["index1"], inp["origin1"], inp["reflected1"])
            a2 = (inp["index2"], inp["origin2"], inp["reflected2"])
            meth = "get_spherical_triangle"
        script = _PRE + """
from a5.projections.dodecahedron import DodecahedronProjection
warm, cold = DodecahedronProjection(), DodecahedronProjection()
warm.%s(*%r)
w = warm.%s(*%r); c = cold.%s(*%r)
if [list(map(float, v)) for v in w] != [list(map(float, v)) for v in c]: bad("cache-key-collision:%s:%r/%r")
print("ok")
""" % (meth, a1, meth, a2, meth, a2, meth, a1, a2)
        return {"script": script, "description": "cache key collision in %s" % meth}
    if f == "h_cache_constants":
        return {"script": _PRE + """
import random, math
from a5.projections.polyhedral import PolyhedralProjection
rnd = random.Random(5)
def uv():
    v = [rnd.gauss(0,1) for _ in range(3)]; n = math.sqrt(sum(x*x for x in v)); return tuple(x/n for x in v)
for _ in range(200):
    A = uv(); T1 = (A, uv(), uv()); T2 = (A, uv(), uv()) if rnd.random() < 0.5 else (uv(), T1[1], T1[2])
    warm, cold = PolyhedralProjection(), PolyhedralProjection()
    warm._get_triangle_constants(T1)
    if warm._get_triangle_constants(T2) != cold._get_triangle_constants(T2): bad("triangle-constants-cache-collision")
print("ok")
""", "description": "triangle constants cache", "candidate": True}
    if f == "h_int_history":
        def cell(prefix, r):
            return "mk(%d,%d,%d,%d)" % (inp.get(prefix + ".face", 0), inp.get(prefix + ".segment", 0), inp.get(prefix + ".S", 0), r)
        body = _PRE + """
import os, a5
from a5.core.serialization import serialize
from a5.core.utils import A5Cell
from a5.core.origin import origins
import a5.core.serialization as s
def mk(f,g,S,r):
    if r == -1: return 0
    return serialize(A5Cell(origin=origins[f], segment=g if r>=1 else 0, S=S if r>=2 else 0, resolution=r))
FUNCS = {
    "cell_to_parent": lambda x, rx: s.cell_to_parent(x, max(rx - 2, -1)),
    "cell_to_parent1": lambda x, rx: s.cell_to_parent(x),
    "cell_to_children": lambda x, rx: s.cell_to_children(x, min(rx + 1, 29)),
    "cell_to_children2": lambda x, rx: s.cell_to_children(x, min(rx + 2, 29)),
    "cell_to_children3": lambda x, rx: s.cell_to_children(x, min(rx + 3, 29)),
    "get_resolution": lambda x, rx: s.get_resolution(x),
    "uncompact": lambda x, rx: a5.uncompact([x], min(rx + 1, 29)),
    "uncompact2": lambda x, rx: a5.uncompact([x], min(rx + 2, 29)),
    "compact": lambda x, rx: a5.compact(s.cell_to_children(x, min(rx + 1, 29))),
    "uncompact_fail": lambda x, rx: a5.uncompact([x, s.cell_to_children(x, min(rx + 2, 29))[0]], min(rx + 1, 28)),
    "is_first_child": lambda x, rx: s.is_first_child(x),
    "get_num_cells": lambda x, rx: a5.get_num_cells(rx),
}
f, g, rx, ry = %r, %r, %d, %d
x, y = %s, %s
def run(fn, *a):
    try: return ["ok", fn(*a)]
    except ValueError: return ["raise", "ValueError"]
if os.environ.get("C17_COLD"):
    print(json.dumps(run(FUNCS[g], y, ry))); sys.exit(0)
run(FUNCS[f], x, rx)
warm = json.loads(json.dumps(run(FUNCS[g], y, ry)))
cold = json.loads(subprocess.run([sys.executable, "-c", SRC], capture_output=True, text=True, env=dict(os.environ, C17_COLD="1")).stdout)
if warm != cold: bad("history-dependent:%s-after-%s:r=%d,%d")
print("ok")
""" % (p["f"], p["g"], p["rx"], p["ry"], cell("x", p["rx"]), cell("y", p["ry"]), p["g"], p["f"], p["rx"], p["ry"])
        script = "SRC = " + repr(body) + "\n" + body
        return {"script": script, "description": "history dependence %s after %s" % (p["g"], p["f"])}
    if f == "h_api_history":
        na, aa = c16.API_CALLS[p["i"]]
        nb, ab = c16.API_CALLS[p["j"]]
        script = _PRE + """
import os, a5
from checks.c16_api import resolve_arg
na, aa, nb, ab = %r, %r, %r, %r
def enc(v): return json.loads(json.dumps(v))
if os.environ.get("C17_COLD"):
    print(json.dumps(getattr(a5, nb)(*[resolve_arg(a5, a) for a in ab]))); sys.exit(0)
argsa = [resolve_arg(a5, a) for a in aa]; argsb = [resolve_arg(a5, a) for a in ab]
getattr(a5, na)(*argsa)
warm = enc(getattr(a5, nb)(*argsb))
cold = json.loads(subprocess.run([sys.executable, "-c", SRC], capture_output=True, text=True, env=dict(os.environ, C17_COLD="1")).stdout)
if warm != cold: bad("history-dependent:a5.%%s-after-a5.%%s" %% (nb, na))
print("ok")
""" % (na, aa, nb, ab)
        script = "SRC = " + repr(script) + "\n" + script
        return {"script": script, "description": "API history", "candidate": True}
    if f == "h_origin_history":
        return {"script": _PRE + """
from a5.core import origin as og
import importlib
fn = %r
f1, f2, x1, x2 = %d, %d, %d, %d
getattr(og, fn)(x1, og.origins[f1])
warm = getattr(og, fn)(x2, og.origins[f2])
cold = subprocess.run([sys.executable, "-c", "from a5.core import origin as og; print(repr(og.%%s(%%d, og.origins[%%d])))" %% (fn, x2, f2)],
                      capture_output=True, text=True).stdout.strip()
if repr(warm) != cold: bad("history-dependent:%%s:faces=%%d,%%d" %% (fn, f1, f2))
print("ok")
""" % (p["fn"], inp["face1"], inp["face2"], inp.get("x1", 0), inp.get("x2", 0)), "description": "origin table history"}
    if f == "h_long_history":
        body = _PRE + """
import os
from checks.c17_long import long_calls
kind, seed = %r, %d
calls = long_calls(kind, seed)
if os.environ.get("C17_COLD"):
    i = int(os.environ["C17_COLD"]); print(json.dumps(calls[i][1]())); sys.exit(0)
first = None
for order in (range(len(calls)), reversed(range(len(calls)))):
    res = {}
    for i in order:
        res[i] = json.loads(json.dumps(calls[i][1]()))
    for i in (range(0, len(calls), max(1, len(calls) // 400))):
        pass
# compare a spread of calls (and the one the check named) with fresh-interpreter values
import random
rnd = random.Random(1)
idx = sorted(set(rnd.sample(range(len(calls)), min(60, len(calls))) + [i for i, cl in enumerate(calls) if cl[0] == %r]))
for i in idx:
    cold = json.loads(subprocess.run([sys.executable, "-c", SRC], capture_output=True, text=True, env=dict(os.environ, C17_COLD=str(i))).stdout)
    if res[i] != cold: bad("history-dependent:" + calls[i][0].split("(")[0])
print("ok")
""" % (p["kind"], p.get("seed", 0), info.get("call"))
        return {"script": "SRC = " + repr(body) + "\n" + body, "description": "long history", "candidate": True}
    if f == "h_singleton_history":
        return {"script": _PRE + """
import math
from a5.core import coordinate_transforms as ct
from a5.projections.authalic import AuthalicProjection
f, g = %r, %r
for x in (0.3, 1.0471975511965976, -0.7, 1.2):
    for y in (x, 0.3, -1.1):
        getattr(ct.authalic, f)(x)
        if getattr(ct.authalic, g)(y) != getattr(AuthalicProjection(), g)(y): bad("history-dependent:authalic.%%s-after-%%s" %% (g, f))
print("ok")
""" % (p["f"], p["g"]), "description": "authalic singleton history", "candidate": True}
    if f == "h_face_history":
        body = _PRE + """
import os, a5
from a5.core.serialization import serialize
from a5.core.utils import A5Cell
from a5.core.origin import origins
r, S = %d, %d
cells = [serialize(A5Cell(origin=origins[f], segment=g, S=S, resolution=r)) for f in range(12) for g in range(5)]
def obs(c): return json.loads(json.dumps([a5.cell_to_lonlat(c), a5.cell_to_boundary(c, {"segments": 1})]))
if os.environ.get("C17_COLD"):
    print(json.dumps(obs(int(os.environ["C17_COLD"])))); sys.exit(0)
for x in cells:
    for y in cells:
        if x == y: continue
        obs(x)
        warm = obs(y)
        if warm != obs(y) or True:
            pass
        key = str(y)
        if key not in globals().setdefault("COLD", {}):
            COLD[key] = json.loads(subprocess.run([sys.executable, "-c", SRC], capture_output=True, text=True, env=dict(os.environ, C17_COLD=key)).stdout)
        if warm != COLD[key]: bad("history-dependent:same-index-on-another-face:r=%%d" %% r)
print("ok")
""" % (p["r"], p["S"])
        return {"script": "SRC = " + repr(body) + "\n" + body, "description": "same index on another face", "candidate": True}
    if f == "h_alias":
        script = _PRE + """
import a5
from a5.core.serialization import serialize, cell_to_children
from a5.core.utils import A5Cell
from a5.core.origin import origins
def mk(f,g,S,r):
    if r == -1: return 0
    return serialize(A5Cell(origin=origins[f], segment=g if r>=1 else 0, S=S if r>=2 else 0, resolution=r))
which, r = %r, %d
x = mk(%d,%d,%d,r); t = min(r + 1, 29)
if which == "cell_to_children":
    K1 = cell_to_children(x, t); snap = list(K1); K1.append(0); K1[0] = 12345
    if cell_to_children(x, t) != snap: bad("alias:cell_to_children-result-shared:r=%%d" %% r)
    k = cell_to_children(x, r); k.append(1)
    if cell_to_children(x, r) != [x]: bad("alias:cell_to_children-own-resolution:r=%%d" %% r)
elif which == "uncompact":
    arg = [x]; U1 = a5.uncompact(arg, t); snap = list(U1)
    if arg != [x] or U1 is arg: bad("alias:uncompact-argument:r=%%d" %% r)
    U1[:] = []
    if a5.uncompact(arg, t) != snap: bad("alias:uncompact-result-shared:r=%%d" %% r)
    if a5.uncompact(arg, r) is arg: bad("alias:uncompact-returns-argument:r=%%d" %% r)
else:
    arg = cell_to_children(x, t); before = list(arg); Y1 = a5.compact(arg); snap = list(Y1)
    if arg != before or Y1 is arg: bad("alias:compact-argument:r=%%d" %% r)
    Y1.append(7)
    if a5.compact(arg) != snap: bad("alias:compact-result-shared:r=%%d" %% r)
    single = [x]
    if a5.compact(single) is single: bad("alias:compact-returns-argument:r=%%d" %% r)
print("ok")
""" % (p["which"], p["r"], inp.get("x.face", 0), inp.get("x.segment", 0), inp.get("x.S", 0))
        return {"script": script, "description": "aliasing of %s" % p["which"]}
    if f == "h_alias_boundary":
        script = _PRE + """
import a5
from checks.c16_api import resolve_arg
pts = %r
idx = %d
cell = resolve_arg(a5, "cell:(%%r,%%r)@%%d" %% (pts[idx %% 13] + ((idx * 7) %% 12,)))
for opts in ({"segments": 2, "closed_ring": True}, {"closed_ring": False}, {}, {"segments": "auto"}):
    o = dict(opts); b1 = a5.cell_to_boundary(cell, o)
    if o != opts: bad("alias:cell_to_boundary-mutates-options")
    snap = list(b1); b1.reverse(); b1.append((0.0, 0.0))
    if a5.cell_to_boundary(cell, o) != snap: bad("alias:cell_to_boundary-result-shared")
print("ok")
""" % (c16.FACE_POINTS + [(179.9, 10.0)], p["idx"])
        return {"script": script, "description": "aliasing of cell_to_boundary"}
    return None


# ---- seeded faults -----------------------------------------------------------------------
def _patch_face_key():
    """seeded fault: reflected and squashed triangles share the +10 slot."""
    import a5.projections.dodecahedron as dd
    orig = dd.DodecahedronProjection.get_face_triangle

    def bad(self, face_triangle_index, reflected=False, squashed=False):
        index = face_triangle_index
        if reflected:
            index += 10
        while len(self.face_triangles) <= index:
            self.face_triangles.append(None)
        if self.face_triangles[index] is not None:
            return self.face_triangles[index]
        if reflected:
            self.face_triangles[index] = self._get_reflected_face_triangle(face_triangle_index, squashed)
        else:
            self.face_triangles[index] = self._get_face_triangle(face_triangle_index)
        return self.face_triangles[index]
    dd.DodecahedronProjection.get_face_triangle = bad
    return lambda: setattr(dd.DodecahedronProjection, "get_face_triangle", orig)


def _patch_memo():
    """seeded fault: memo on cell_to_parent keyed by the id with the low bits dropped."""
    import a5.core.serialization as s
    orig = s.cell_to_parent
    memo = {}
    s._parent_memo = memo

    def bad(index, parent_resolution=None):
        key = (index >> 8, parent_resolution)
        if key not in memo:
            memo[key] = orig(index, parent_resolution)
        return memo[key]
    s.cell_to_parent = bad

    def undo():
        s.cell_to_parent = orig
        del s._parent_memo
    return undo


def selftests(seed):
    return [Job("selftest-face-key", "h_cache_face", {}, {"max_paths": 20000, "patch": "_patch_face_key", "expect_cex": True}),
            Job("selftest-parent-memo", "h_int_history", {"f": "cell_to_parent1", "g": "cell_to_parent1", "rx": 28, "ry": 28},
                {"max_paths": 3000, "patch": "_patch_memo", "expect_cex": True})]
