"""C15 - geodetic <-> authalic latitude conversion (real-arithmetic semantics).

AuthalicProjection._apply_coefficients applies sin/cos to its *input only*; with s = sin(phi),
c = cos(phi), s^2 + c^2 = 1 the value it returns is phi + g(s, c) with g a polynomial that symx
extracts by running the real method on exact reals (and on dual numbers for the derivative).
z3's nlsat decides the obligations over the whole unit circle.
"""
import math
from fractions import Fraction
import z3
from symx import core as sx
from symx import floats as sf
from .common import Job

TOL_F = Fraction(9, 10 ** 11)      # property: forward within 1e-10 of the closed form (minus rounding budget)
EPS_F = Fraction(4, 10 ** 13)      # distances used for the round-trip clause: EPS_I + LIP*EPS_F + rounding <= 1e-12
EPS_I = Fraction(4, 10 ** 13)
ROUND = Fraction(1, 10 ** 14)      # budget for IEEE rounding (<= 30 roundings of magnitude <= 2, libm within 1 ulp)
LIP = Fraction(10102, 10000)       # Lipschitz bound of the reference inverse (from its derivative bound)

BOUNDS = {"phi": "every real latitude: (sin phi, cos phi) ranges over the whole unit circle (superset of [-90, 90] degrees)",
          "arithmetic": "exact real arithmetic on the polynomial the code computes; float constants converted exactly",
          "reference": "12-term sine series of the closed-form WGS84 authalic latitude (60-digit mpmath, 64-point transform)"}
OUTSIDE = ["bit-level IEEE-754 behaviour of math.sin/math.cos and of the ~30 float operations (bounded by the stated rounding budget, not modelled)",
           "a refactoring that is not polynomial in (sin phi, cos phi) is Unsupported -> inconclusive"]
STUBS = ["a5.projections.authalic.math -> shim: sin/cos of the symbolic angle return the symbols s, c with s^2+c^2=1 "
         "(and c, -s scaled by dphi for dual numbers); everything else delegates to the real math module"]
ASSUMPTIONS = ["real-arithmetic semantics; libm sin/cos within 1 ulp and <= 30 roundings of magnitude <= 2 contribute < 1e-13 (budget ROUND)",
               "reference coefficients: truncation at k=12 and aliasing of the 64-point transform are < 1e-30 (|K_k| ~ 2.2e-3 * (1.7e-3)^(k-1))",
               "mean value theorem: derivative in [0.99, 1.01] on the circle => strictly increasing; across float gaps larger than the rounding error"]


class Dual:
    """forward-mode AD number over SymReal / float."""
    _symx_symbolic = True
    __hash__ = None

    def __init__(self, v, d):
        self.v, self.d = v, d

    @staticmethod
    def lift(o):
        return o if isinstance(o, Dual) else Dual(o, 0.0)

    def __add__(self, o):
        o = Dual.lift(o)
        return Dual(self.v + o.v, self.d + o.d)

    __radd__ = __add__

    def __sub__(self, o):
        o = Dual.lift(o)
        return Dual(self.v - o.v, self.d - o.d)

    def __rsub__(self, o):
        o = Dual.lift(o)
        return Dual(o.v - self.v, o.d - self.d)

    def __mul__(self, o):
        o = Dual.lift(o)
        return Dual(self.v * o.v, self.v * o.d + self.d * o.v)

    __rmul__ = __mul__

    def __neg__(self):
        return Dual(-self.v, -self.d)

    def __truediv__(self, o):
        if isinstance(o, (int, float)):
            return Dual(self.v / o, self.d / o)
        raise sx.Unsupported("division by a dual number")


class ShimMath:
    def __init__(self):
        self.angles = []      # (key, sin, cos)

    def register(self, x, s, c):
        self.angles.append((x, s, c))

    def _find(self, x):
        for a, s, c in self.angles:
            if a is x:
                return s, c
        raise sx.Unsupported("sin/cos of a symbolic expression other than the input angle")

    def sin(self, x):
        if isinstance(x, (sf.SymFloat, Dual)):
            return self._find(x)[0]
        return math.sin(x)

    def cos(self, x):
        if isinstance(x, (sf.SymFloat, Dual)):
            return self._find(x)[1]
        return math.cos(x)

    def __getattr__(self, name):
        f = getattr(math, name)
        if callable(f):
            def g(*a):
                if any(isinstance(x, (sf.SymFloat, Dual)) for x in a):
                    raise sx.Unsupported("math.%s of a symbolic float" % name)
                return f(*a)
            return g
        return f


def _setup(c):
    sf.install_float_mode(c, "real")
    import a5.projections.authalic as au
    shim = ShimMath()
    au.math = shim
    if c.__dict__.get("c15_param") == "t":
        # rational parametrisation of the unit circle minus (0,-1): univariate queries
        t = sf.real_input(c, "t")
        den = t * t + 1
        s = (2 * t) / den
        co = (1 - t * t) / den
        return au, shim, s, co
    s = sf.real_input(c, "s", -1, 1)
    co = sf.real_input(c, "c", -1, 1)
    c.assume(s * s + co * co == 1)
    return au, shim, s, co


def _table(au, which):
    return au.GEODETIC_TO_AUTHALIC if which == "forward" else au.AUTHALIC_TO_GEODETIC


def _link(c, phi, s, co):
    """contracts tying the symbolic angle to its sine and cosine on the property's domain [-pi/2, pi/2] (needed only when
    the code branches on the angle itself, e.g. a pole or small-angle shortcut): sign(s) = sign(phi), (2/pi)|phi| <= |s| <= |phi|
    (Jordan), 1 - (2/pi)|phi| <= cos(phi) <= pi/2 - |phi|."""
    a = abs(phi)
    sa = abs(s)
    hp = sf.SymReal(sf.rval(Fraction(884279719003555, 562949953421312)))     # float pi/2, exactly
    c.assume(sx.And(a <= hp, co >= 0, s * phi >= 0, sa <= a, sa * hp >= a,
                    co <= hp - a + 1e-16, co * hp >= hp - a - 1e-16))


def _g(au, shim, which, s, co, c, tag="", link=True):
    """run the real forward()/inverse() on a symbolic angle; returns g = result - phi.  The angle is tied to its sine and
    cosine (contracts of _link) only if the code under test branched on the angle itself - the pinned code does not, and the
    extra inequalities make the nlsat queries much slower (> 20 min instead of 18 s)."""
    phi = sf.real_input(c, "phi" + tag)
    shim.register(phi, s, co)
    before = c.path_decisions
    proj = au.AuthalicProjection()
    res = proj.forward(phi) if which == "forward" else proj.inverse(phi)
    if link and c.path_decisions > before:
        _link(c, phi, s, co)
    if isinstance(res, (int, float)):
        res = sf.SymReal(sf.rval(res))           # a branch of the code returned a constant (e.g. a pole snap)
    if not isinstance(res, sf.SymReal):
        raise sx.Unsupported("result is not real-valued arithmetic on (phi, sin phi, cos phi)")
    return res - phi


def _ref_series(which, s, co):
    from oracles import authalic_ref as ar
    import mpmath as mp
    K = ar.forward_coeffs() if which == "forward" else ar.inverse_coeffs()
    X = co * co - s * s        # cos 2phi
    Y = 2 * s * co             # sin 2phi
    Skm1, Sk = 0.0, Y          # sin(2k phi): S_{k+1} = 2 X S_k - S_{k-1}
    tot = None
    dtot = None                # derivative wrt phi: sum 2k K_k cos(2k phi)
    Ckm1, Ck = 1.0, X          # cos(2k phi)
    for k, Kk in enumerate(K, 1):
        fr = Fraction(mp.nstr(mp.re(Kk), 50))
        term = Sk * sf.SymReal(sf.rval(fr))
        dterm = Ck * sf.SymReal(sf.rval(fr * 2 * k))
        tot = term if tot is None else tot + term
        dtot = dterm if dtot is None else dtot + dterm
        Skm1, Sk = Sk, 2 * X * Sk - Skm1
        Ckm1, Ck = Ck, 2 * X * Ck - Ckm1
    return tot, dtot


def h_odd_fixed(c, which):
    au, shim, s, co = _setup(c)
    g1 = _g(au, shim, which, s, co, c, "1", link=False)
    g2 = _g(au, shim, which, -s, co, c, "2", link=False)       # the angle -phi
    cand = {"candidate": True}
    c.prove(g1 + g2 == 0, "odd:g(-s,c)==-g(s,c)", info=cand)
    c.prove(sx.Implies(sx.And(s == 0, co == 1), g1 == 0), "fixes-0", info=cand)
    c.prove(sx.Implies(sx.And(s == 1, co == 0), g1 == 0), "fixes-+90", info=cand)
    c.prove(sx.Implies(sx.And(s == -1, co == 0), g1 == 0), "fixes--90", info=cand)


def h_monotone(c, which):
    au, shim, s, co = _setup(c)
    phi = Dual(sf.real_input(c, "phi"), 1.0)
    shim.register(phi, Dual(s, co), Dual(co, -s))
    proj = au.AuthalicProjection()
    res = proj.forward(phi) if which == "forward" else proj.inverse(phi)
    if not isinstance(res, Dual):
        raise sx.Unsupported("derivative not available")
    d = res.d
    c.prove(sx.And(d >= 0.5, d <= 1.5), "derivative-in-[0.5,1.5]=>strictly-increasing", info={"candidate": True})


def h_accuracy(c, which):
    c.c15_param = "t"
    au, shim, s, co = _setup(c)
    g = _g(au, shim, which, s, co, c)
    ref, dref = _ref_series(which, s, co)
    eps = EPS_F if which == "forward" else EPS_I
    diff = g - ref
    cand = {"candidate": True}
    if which == "forward":
        c.prove(sx.And(diff <= sf.SymReal(sf.rval(TOL_F)), diff >= sf.SymReal(sf.rval(-TOL_F))),
                "|forward - closed-form| <= 9e-11 (property: 1e-10)", info=cand)
    c.prove(sx.And(diff <= sf.SymReal(sf.rval(eps)), diff >= sf.SymReal(sf.rval(-eps))),
            "|%s - reference| <= %s (for the 1e-12 round trip)" % (which, float(eps)), info=cand)
    c.prove(sx.And(dref >= -0.01, dref <= 0.01), "reference-derivative-in-[0.99,1.01]")


def h_budget(c):
    """arithmetic on the certified distances: the property's tolerances follow."""
    c.prove(bool(TOL_F + ROUND <= Fraction(1, 10 ** 10)), "forward-within-1e-10-of-closed-form")
    c.prove(bool(EPS_I + LIP * EPS_F + 3 * ROUND <= Fraction(1, 10 ** 12)), "inverse(forward(phi))-within-1e-12")


def h_concrete(seed=0):
    """concrete IEEE evaluations that real arithmetic does not speak about (reported, not decisive)."""
    import a5.projections.authalic as au
    au.math = math
    proj = au.AuthalicProjection()
    res = sx.Result()
    st = sx.Stats()
    ob = st.ob("ieee:fixed-points-at-float-0-and-pi/2")
    ob["paths"] = 1
    ok = (proj.forward(0.0) == 0.0 and proj.inverse(0.0) == 0.0 and abs(proj.forward(math.pi / 2) - math.pi / 2) <= 1e-15
          and abs(proj.forward(-math.pi / 2) + math.pi / 2) <= 1e-15 and abs(proj.inverse(math.pi / 2) - math.pi / 2) <= 1e-15)
    if not ok:
        raise RuntimeError("IEEE evaluation of the fixed points deviates: %r" % (
            (proj.forward(0.0), proj.forward(math.pi / 2), proj.inverse(math.pi / 2)),))
    ob["trivial"] = 1
    res.stats = st
    res.samples = [{"obligation": "ieee fixed points", "claim": "forward/inverse(0.0)==0.0, |f(pi/2)-pi/2|<=1e-15", "path": []}]
    return res


def jobs(tier, seed):
    js = []
    for which in ("forward", "inverse"):
        o = {"logic": None, "query_timeout_ms": 900000}
        js.append(Job("odd-fixed[%s]" % which, "h_odd_fixed", {"which": which}, dict(o), weight=2))
        js.append(Job("monotone[%s]" % which, "h_monotone", {"which": which}, dict(o), weight=5))
        js.append(Job("accuracy[%s]" % which, "h_accuracy", {"which": which}, dict(o), weight=10))
    js.append(Job("budget", "h_budget", {}, {"logic": None}))
    js.append(Job("ieee-fixed-points", "h_concrete", {}, {"direct": True}))
    return js


_PRE = """
import sys, math
from a5.projections.authalic import AuthalicProjection
sys.path.insert(0, %r)
P = AuthalicProjection()
def bad(sig):
    print("REPRODUCED " + sig); sys.exit(1)
def angle(s, c):
    return math.atan2(s, c)
""" % __import__("os").path.dirname(__import__("os").path.dirname(__import__("os").path.abspath(__file__)))


def replay(cx):
    inp, p, lab = cx["inputs"], cx["params"], cx["label"]
    which = p.get("which", "forward")
    def num(x):
        x = str(x).rstrip("?")
        try:
            return float(Fraction(x))
        except Exception:
            return float(x)
    try:
        if "t" in inp:
            t = num(inp["t"])
            s, co = 2 * t / (1 + t * t), (1 - t * t) / (1 + t * t)
        else:
            s, co = num(inp["s"]), num(inp["c"])
    except Exception:
        s, co = 0.6, 0.8
    script = _PRE + """
which = %r
f = P.forward if which == "forward" else P.inverse
phi0 = angle(%r, %r)
# closed-form reference with mpmath under the tooling-independent formula (pure python fallback)
a = 6378137.0; fl = 1/298.257223563; e2 = fl*(2-fl); e = math.sqrt(e2)
def q(p):
    sp = math.sin(p); return (1-e2)*(sp/(1-e2*sp*sp) - (1/(2*e))*math.log((1-e*sp)/(1+e*sp)))
def xi(p):
    if p < 0: return -xi(-p)
    if p >= math.pi/2: return math.pi/2
    return math.asin(max(-1.0, min(1.0, q(p)/q(math.pi/2))))
pts = [phi0] + [math.radians(d/4.0) for d in range(-360, 361)] + [phi0 * 10.0**-k for k in range(1, 12)]
pts += [sg * 10.0**-k for k in range(2, 16) for sg in (1, -1)] + [sg * (math.pi/2 - 10.0**-k) for k in range(2, 16) for sg in (1, -1)]
pts += [sg * m * 10.0**-k for k in range(2, 14) for sg in (1, -1) for m in (2.5, 5.0)] + [sg * (math.pi/2 - m * 10.0**-k) for k in range(2, 14) for sg in (1, -1) for m in (2.5, 5.0)]
for t in pts:
    if abs(t) > math.pi/2: continue
    if f(-t) != -f(t): bad(which + "-not-odd")
    if abs(P.forward(t) - xi(t)) > 1e-10: bad("forward-deviates-from-closed-form")
    if abs(P.inverse(P.forward(t)) - t) > 1e-12: bad("inverse-of-forward-deviates")
grid = sorted(p for p in pts if abs(p) <= math.pi/2)
for a_, b_ in zip(grid, grid[1:]):
    if a_ < b_ and not f(a_) < f(b_): bad(which + "-not-increasing")
if f(0.0) != 0.0 or abs(f(math.pi/2) - math.pi/2) > 1e-15: bad(which + "-fixed-points")
print("ok")
""" % (which, s, co)
    return {"script": script, "description": "authalic %s: %s" % (which, lab), "candidate": True}


def _patch_coeff():
    import a5.projections.authalic as au
    old = au.GEODETIC_TO_AUTHALIC
    au.GEODETIC_TO_AUTHALIC = old[:2] + (old[2] * 1.5,) + old[3:]
    return lambda: setattr(au, "GEODETIC_TO_AUTHALIC", old)


def selftests(seed):
    return [Job("selftest-coefficient", "h_accuracy", {"which": "forward"}, {"logic": None, "patch": "_patch_coeff"})]
