"""C19 - hex text form of an id round-trips for every 64-bit value."""
import random
from symx import core as sx
from symx import strs
from .common import Job

BOUNDS = {"n": "symbolic over the whole range [0, 2^64) (forks over the 16 digit counts)",
          "parsed strings": "symbolic strings of every length 1..16 over [0-9a-fA-F] (leading zeros, mixed case), zero-padded strings of length 17, 18, 20, "
                            "and lengths 1..3 over arbitrary bytes for the raise/accept behaviour",
          "string model": "<= 20 characters, 8-bit code points"}
OUTSIDE = ["strings longer than 16 hex digits (values >= 2^64)", "non-ASCII digits accepted by int()",
           "decimal rendering of a symbolic integer (%d, str(n)), bytes.fromhex / int.from_bytes (reported inconclusive, not modelled)"]
STUBS = ["math.log/log2/floor/ceil -> symx.shims.IntMath (over-approximating float contract; witnesses are replayed with a boundary sweep)",
         "hex -> symx.strs.hex_model (sign, 0x, minimal lower-case digits)",
         "int -> symx.strs.int_model (whitespace, sign, 0x prefix, either case, single underscores; ValueError otherwise)",
         "format -> symx.strs.format_model (x/X/b/o with fill/align/#/0/width)",
         "string literals of a5/core/hex.py -> symx.strlift.KStr, f-strings -> symx.strlift.fstr (module re-compiled from its current source; "
         "%-formatting x/X/o/s, str.format, join, indexing and index/find of a literal by a symbolic operand are modelled, plain str otherwise)",
         "str methods on symbolic strings: slicing, lower/upper, strip family, zfill, startswith, removeprefix, replace"]
ASSUMPTIONS = ["the builtin models follow the Python language reference; validated differentially against the real builtins "
               "in the conformance job of every run"]

PCT = [("%x%08x", lambda n, hi, lo: (hi, lo)), ("%X", lambda n, hi, lo: n), ("%#x|%-6x|%6x", lambda n, hi, lo: (n, lo & 0xFF, lo & 0xFFF)),
       ("%016x%%", lambda n, hi, lo: (n,)), ("%o", lambda n, hi, lo: n)]
BRACE = [("{:x}{:08x}", lambda n, hi, lo: (hi, lo)), ("{0:#x}/{1:X}/{0:b}", lambda n, hi, lo: (lo & 0xFFFF, hi)), ("{:>20x}", lambda n, hi, lo: (n,))]
HEXCH = [ord(ch) for ch in "0123456789abcdefABCDEF"]


def _install(c):
    strs.install(c)
    import a5.core.hex as hx
    from symx import strlift
    strlift.lift_module(hx)          # string literals -> KStr, f-strings -> model (re-compiled from the current source)
    hx.hex = strs.hex_model
    from symx import shims as _sh
    hx.int = _sh.make_int_shim(strs.int_model)
    hx.format = strs.format_model
    hx.str = strs.str_model
    hx.bin = strs.bin_model
    from symx import shims, floats as sf
    hx.math = shims.INT_MATH
    hx.range = shims.range_
    if getattr(c, "float_mode", None) is None:
        sf.install_float_mode(c, "fp")
    return hx


def _chars(s):
    return strs.SymStr.of(s).c


def h_roundtrip(c):
    hx = _install(c)
    n = c.int("n", 0, 2 ** 64 - 1)
    try:
        s = hx.u64_to_hex(n)
    except (sx.Unsupported, sx.Inconclusive):
        raise
    except Exception as ex:
        c.fail("u64_to_hex-does-not-raise", info={"exc": "%s: %s" % (type(ex).__name__, ex)})
        return
    if not isinstance(s, (str, strs.SymStr)):
        c.fail("u64_to_hex-returns-str")
        return
    ch = _chars(s)
    c.prove(len(ch) >= 1, "non-empty")
    c.prove(len(ch) <= 16, "at-most-16-digits")
    c.prove(sx.And(*[sx.Or(sx.And(x >= 48, x <= 57), sx.And(x >= 97, x <= 102)) for x in ch]) if ch else False,
            "lower-case-hex-alphabet-only")
    if ch:
        c.prove(sx.Or(ch[0] != 48, n == 0) if len(ch) > 1 else True, "no-leading-zero-padding")
        c.prove(sx.Implies(n == 0, sx.And(len(ch) == 1, ch[0] == 48)), "zero-renders-as-0")
    try:
        back = hx.hex_to_u64(s)
    except (sx.Unsupported, sx.Inconclusive):
        raise
    except Exception as ex:
        c.fail("hex_to_u64(u64_to_hex(n))-does-not-raise", info={"exc": "%s: %s" % (type(ex).__name__, ex)})
        return
    c.prove(back == n, "hex_to_u64(u64_to_hex(n))==n")
    # equal strings <=> equal ids: second value with the same rendering
    m = c.int("m", 0, 2 ** 64 - 1)
    s2 = hx.u64_to_hex(m)
    ch2 = _chars(s2)
    if len(ch2) == len(ch):
        c.prove(sx.Implies(sx.And(*[a == b for a, b in zip(ch, ch2)]), n == m), "equal-strings-equal-ids")
    else:
        c.prove(n != m, "equal-strings-equal-ids")


def h_parse(c, L):
    """positional value for symbolic strings over [0-9a-fA-F] of length L (leading zeros, mixed case)."""
    hx = _install(c)
    c.str_iter_concrete = 2 if L <= 2 else 0
    ch = []
    for i in range(L):
        x = c.int("ch%d" % i, 48, 102)
        if i < L - 16:
            c.assume(x == 48)            # zero padding beyond 16 digits (the value still fits 64 bits)
        else:
            c.assume(sx.Or(*[x == k for k in HEXCH]))
        ch.append(x)
    s = strs.SymStr(ch)
    try:
        v = hx.hex_to_u64(s)
    except (sx.Unsupported, sx.Inconclusive):
        raise
    except Exception as ex:
        c.fail("parse-accepts-hex-digits", info={"exc": "%s: %s" % (type(ex).__name__, ex), "L": L})
        return
    exp = 0
    for x in ch:
        d = sx.ite(x <= 57, x - 48, sx.ite(x <= 70, x - 55, x - 87))
        exp = exp * 16 + d
    c.prove(v == exp, "parse==positional-value")
    # case-insensitive: the lower-cased and upper-cased strings parse to the same value
    c.prove(hx.hex_to_u64(s.lower()) == v, "parse-case-insensitive")
    c.prove(hx.hex_to_u64(s.upper()) == v, "parse-case-insensitive")
    # canonical rendering of the parsed value is the lower-cased string without leading zeros
    out = _chars(hx.u64_to_hex(v))
    low = _chars(s.lower())
    k = len(low) - len(out)
    if k >= 0:
        c.prove(sx.And(*([x == 48 for x in low[:k]] + [a == b for a, b in zip(low[k:], out)])), "render(parse(s))==lower(s)-minus-leading-zeros")
    else:
        c.fail("render(parse(s))==lower(s)-minus-leading-zeros")


def h_conformance(seed=0):
    """Differential validation of the builtin models against the real builtins (pinned symbolic
    inputs so the symbolic machinery itself is exercised)."""
    rnd = random.Random(seed)
    vals = [0, 1, 9, 10, 15, 16, 255, 256, 2 ** 32 - 1, 2 ** 32, 2 ** 63, 2 ** 64 - 1, 0x0123456789abcdef, 0xfedcba9876543210]
    vals += [rnd.getrandbits(rnd.randint(1, 64)) for _ in range(40)]
    vals += [1 << k for k in range(0, 64, 7)] + [(1 << k) - 1 for k in range(4, 65, 12)]
    res = sx.Result()
    st = sx.Stats()
    bad = []
    specs = ["x", "X", "#x", "016x", "b", "o", ">20x", "+x"]

    def h(c, v):
        strs.install(c)
        n = c.int("n", 0, 2 ** 64 - 1)
        c.observe("hex", _chars(strs.hex_model(n)))
        for sp in specs:
            c.observe("fmt:" + sp, _chars(strs.format_int(n, sp)))
        c.observe("int", strs.int_model(strs.hex_model(n), 16))
        c.observe("int0", strs.int_model(strs.SymStr(_chars(strs.hex_model(n))[2:]).zfill(18), 16))
        from symx import strlift
        hi, lo = n >> 32, n & 0xFFFFFFFF
        for k, (f, a) in enumerate(PCT):
            c.observe("pct%d" % k, _chars(strlift.KStr(f) % a(n, hi, lo)))
        for k, (f, a) in enumerate(BRACE):
            c.observe("brace%d" % k, _chars(strlift.KStr(f).format(*a(n, hi, lo))))
        c.observe("fstr", _chars(strlift.fstr(("<", (hi, None, "x"), "|", (lo, None, "08X"), ">"))))
        c.observe("tab", _chars(strlift.KStr("").join(strlift.KStr("0123456789abcdef")[(n >> (4 * i)) & 15] for i in range(15, -1, -1))))
    for v in vals:
        r = sx.explore(h, {"v": v}, pins={"n": v})
        st.paths += r.stats.paths
        st.feas_queries += r.stats.feas_queries
        if len(r.observations) != 1:
            bad.append(("paths", v, len(r.observations)))
            continue
        o = r.observations[0]
        got = "".join(chr(x) for x in o["hex"])
        if got != hex(v):
            bad.append(("hex", v, got))
        for sp in specs:
            g = "".join(chr(x) for x in o["fmt:" + sp])
            if g != format(v, sp):
                bad.append(("format " + sp, v, g))
        if o["int"] != v or o["int0"] != v:
            bad.append(("int", v, o["int"], o["int0"]))
        hi, lo = v >> 32, v & 0xFFFFFFFF
        for k, (f, a) in enumerate(PCT):
            if "".join(chr(x) for x in o["pct%d" % k]) != f % a(v, hi, lo):
                bad.append(("percent " + f, v))
        for k, (f, a) in enumerate(BRACE):
            if "".join(chr(x) for x in o["brace%d" % k]) != f.format(*a(v, hi, lo)):
                bad.append(("brace " + f, v))
        if "".join(chr(x) for x in o["fstr"]) != f"<{hi:x}|{lo:08X}>":
            bad.append(("fstr", v))
        if "".join(chr(x) for x in o["tab"]) != "%016x" % v:
            bad.append(("table-join", v))
    # int_model on concrete-but-lifted strings incl. invalid ones
    strings = ["0", "00", "ff", "FF", "0xff", "0XfF", " 1f ", "+a", "-a", "_1", "1_", "1__2", "1_2", "", " ", "0x", "g", "12g", "0x_1f", "\t7\n",
               "ABCDEF0123456789", "ffffffffffffffff", "0_0"]

    def h2(c, s):
        strs.install(c)
        ch = [c.int("ch%d" % i, 0, 255) for i in range(len(s))]
        try:
            c.observe("v", strs.int_model(strs.SymStr(ch), 16))
        except ValueError:
            c.observe("v", "ValueError")
    for s in strings:
        r = sx.explore(h2, {"s": s}, pins={"ch%d" % i: ord(ch) for i, ch in enumerate(s)})
        st.paths += r.stats.paths
        try:
            exp = int(s, 16)
        except ValueError:
            exp = "ValueError"
        got = [o["v"] for o in r.observations]
        if got != [exp]:
            bad.append(("int16", s, got, exp))
    ob = st.ob("builtin-models-agree-with-real-builtins")
    ob["paths"] = len(vals) + len(strings)
    ob["trivial"] = len(vals) + len(strings) - len(bad)
    res.stats = st
    if bad:
        raise RuntimeError("string model disagrees with the real builtins: %r" % (bad[:5],))
    res.samples = [{"obligation": "conformance", "claim": "hex/format/int/%%-format/str.format/f-string/table-join models == real builtins on %d pinned values and %d strings" % (len(vals), len(strings)), "path": []}]
    return res


def jobs(tier, seed):
    js = [Job("roundtrip", "h_roundtrip", {}, {"max_paths": 5000}, weight=50),
          Job("conformance", "h_conformance", {"seed": seed}, {"direct": True}, weight=40)]
    Ls = list(range(1, 17)) + [17, 18, 20]
    for L in Ls:
        js.append(Job("parse[L=%d]" % L, "h_parse", {"L": L}, {"max_paths": 20000, "width": 72 if L <= 16 else 104}, weight=L))
    return js


_PRE = """
import sys
from a5.core.hex import hex_to_u64, u64_to_hex
def bad(sig):
    print("REPRODUCED " + sig); sys.exit(1)
"""


def replay(cx):
    inp, p, f = cx["inputs"], cx["params"], cx["func"]
    if f == "h_roundtrip":
        return {"script": _PRE + """
import re
cands = [%d, %d] + [2**k - d for k in range(1, 65) for d in (1, 2, 3, 5, 11, 180, 2880, 46080) if 0 <= 2**k - d < 2**64] + [2**k for k in range(64)]
for n in cands:
    try:
        s = u64_to_hex(n)
    except Exception as ex:
        bad("u64_to_hex-raises:" + type(ex).__name__)
    if not isinstance(s, str) or not re.fullmatch("[0-9a-f]+", s): bad("u64_to_hex-not-lowercase-hex:bits=%%d" %% n.bit_length())
    if len(s) > 1 and s[0] == "0": bad("u64_to_hex-padded:bits=%%d" %% n.bit_length())
    if n == 0 and s != "0": bad("u64_to_hex-zero")
    try:
        b = hex_to_u64(s)
    except Exception as ex:
        bad("roundtrip-raises:" + type(ex).__name__)
    if b != n: bad("roundtrip-mismatch:bits=%%d" %% n.bit_length())
if %d != %d and u64_to_hex(%d) == u64_to_hex(%d): bad("hex-collision")
print("ok")
""" % (inp["n"], inp.get("m", 0), inp["n"], inp.get("m", 0), inp["n"], inp.get("m", 0)), "description": "hex round trip", "candidate": any("#" in k for k in inp)}
    if f == "h_parse":
        s = "".join(chr(inp["ch%d" % i]) for i in range(p["L"]))
        return {"script": _PRE + """
s = %r
try:
    v = hex_to_u64(s)
except Exception as ex:
    bad("parse-rejects-hex-digits:len=%%d:%%s" %% (len(s), type(ex).__name__))
if v != int(s, 16): bad("parse-wrong-value:len=%%d" %% len(s))
if hex_to_u64(s.lower()) != v or hex_to_u64(s.upper()) != v: bad("parse-case-sensitive:len=%%d" %% len(s))
if u64_to_hex(v) != (s.lower().lstrip("0") or "0"): bad("render-of-parse:len=%%d" %% len(s))
print("ok")
""" % s, "description": "hex parse",
                # a witness that fixes a value of an over-approximating contract stub (math.log...) may be spurious:
                # if it does not reproduce on the real functions it is reported as inconclusive, not as an engine fault
                "candidate": any("#" in k for k in inp)}
    return None


def _patch_mask():
    import a5.core.hex as hx
    orig = hx.u64_to_hex
    hx.u64_to_hex = lambda v: orig(v & 0xFFFFFFFFFFFFFFF if False else (v ^ ((v >> 63) << 62)))
    return lambda: setattr(hx, "u64_to_hex", orig)


def _patch_strip():
    import a5.core.hex as hx
    orig = hx.hex_to_u64
    hx.hex_to_u64 = lambda s: orig(s[:15]) if len(s) == 16 else orig(s)
    return lambda: setattr(hx, "hex_to_u64", orig)


def selftests(seed):
    return [Job("selftest-topbit", "h_roundtrip", {}, {"patch": "_patch_mask"}),
            Job("selftest-truncate", "h_parse", {"L": 16}, {"patch": "_patch_strip"})]
