"""C10 - uncompact expands each cell to exactly its descendants at the target level."""
import itertools
import z3
from symx import core as sx
from .common import Job
from . import shapes
from .c06 import expected_children

BOUNDS = {
    "quick": {"list length": "1..3 symbolic cells (duplicates and ancestor/descendant pairs allowed: positions are unconstrained)",
              "resolutions": "singles: every r in -1..29 with t in {r, r+1, r+2}; pairs/triples from {-1,0,1,2,3,9,28} with t <= min+3",
              "expansion": "<= 960 ids per input cell"},
    "thorough": {"list length": "1..4", "resolutions": "singles: every r in -1..29, t in r..min(r+3,29); all pairs and triples from {-1,0,1,2,3,5,28,29} with max<=t<=min+3; "
                          "a third of the 4-lists over {-1,0,1,2,3} with t<=min+2",
                 "expansion": "<= 960 ids per input cell"},
}
OUTSIDE = ["lists of more than 3 cells (the function treats cells independently: one running offset)",
           "expansion over more than 3 levels in one call", "target resolution 30 (C05 known finding)"]
STUBS = ["serialization.origins through SymTable (symbolic face lookup = ite over the real table)"]
ASSUMPTIONS = ["validity predicate only"]


def h_uncompact(c, rs, t):
    s = shapes.install_symtables()
    import a5.core.compact as cm
    cells, ids = [], []
    for n, r in enumerate(rs):
        cell, cid = shapes.symid(c, "c%d" % n, r)
        cells.append(cell)
        ids.append(cid)
    arg = list(ids)
    before = list(arg)
    should_raise = any(r > t for r in rs)
    try:
        out = cm.uncompact(arg, t)
    except ValueError:
        c.prove(should_raise, "raises-only-when-a-cell-is-finer-than-t")
        c.prove(len(arg) == len(before) and all(x is y for x, y in zip(arg, before)), "argument-not-modified")
        return
    except Exception as ex:
        c.fail("no-unexpected-exception", info={"exc": "%s: %s" % (type(ex).__name__, ex)})
        return
    c.prove(not should_raise, "finer-than-t-raises-and-returns-nothing")
    if should_raise:
        return
    c.prove(len(arg) == len(before) and all(x is y for x, y in zip(arg, before)), "argument-not-modified")
    c.prove(out is not arg, "result-is-a-fresh-list")
    counts = [expected_children(r, t) for r in rs]
    c.prove(len(out) == sum(counts), "len==sum-of-12/5/4-products")
    if len(out) != sum(counts):
        return
    off = 0
    for n, (r, cnt) in enumerate(zip(rs, counts)):
        sl = out[off:off + cnt]
        off += cnt
        ok = []
        for k in sl:
            ok.append(s.get_resolution(k) == t)
            ok.append(s.cell_to_parent(k, r) == ids[n])
        c.prove(sx.And(*ok), "slice-%d-at-t-with-parent-ci" % n)
        if cnt > 1:
            c.prove(sx.SymBool(z3.Distinct(*[sx.iexpr(k) for k in sl])), "slice-%d-distinct" % n)
        else:
            c.prove(sl[0] == ids[n], "cell-at-t-is-itself")
        # completeness against the decoded-field oracle
        d, did = shapes.symid(c, "d%d" % n, t)
        c.prove(sx.Implies(shapes.anc(cells[n], d), sx.Or(*[did == k for k in sl])), "slice-%d-complete" % n)


def _combos(pool, maxlen):
    out = []
    for n in range(2, maxlen + 1):
        for rs in itertools.product(pool, repeat=n):
            lo, hi = min(rs), max(rs)
            for t in range(hi, min(lo + 3, 29) + 1):
                if sum(expected_children(r, t) for r in rs) <= 2000:
                    out.append((list(rs), t))
    return out


def jobs(tier, seed):
    js = []
    for r in range(-1, 30):
        ts = range(r, min(r + (2 if tier == "quick" else 3), 29) + 1)
        for t in ts:
            js.append(Job("single[r=%d,t=%d]" % (r, t), "h_uncompact", {"rs": [r], "t": t},
                          weight=expected_children(r, t)))
    pool = [-1, 0, 1, 2, 3, 9, 28] if tier == "quick" else [-1, 0, 1, 2, 3, 5, 28, 29]
    combos = _combos(pool, 3)
    if tier == "quick":
        import random
        rnd = random.Random(seed)
        pairs = [x for x in combos if len(x[0]) == 2]
        triples = [x for x in combos if len(x[0]) == 3]
        rnd.shuffle(triples)
        combos = pairs + triples[:40]
    if tier != "quick":
        # thorough: lists of four cells around the aperture changes
        import itertools as _it
        for rs in _it.product([-1, 0, 1, 2, 3], repeat=4):
            lo, hi = min(rs), max(rs)
            for t in range(hi, min(lo + 2, 29) + 1):
                if sum(expected_children(r, t) for r in rs) <= 600 and (sum(rs) + t) % 3 == 0:
                    combos.append((list(rs), t))
    for rs, t in combos:
        js.append(Job("list[%s->%d]" % (",".join(map(str, rs)), t), "h_uncompact", {"rs": rs, "t": t},
                      weight=sum(expected_children(r, t) for r in rs)))
    # raising cases: some cell finer than t
    for rs, t in [([3, 5], 4), ([5, 3], 4), ([0], -1 + 0), ([2, 2, 9], 8), ([29], 28), ([1, 0], 0), ([-1, 4], 3), ([4], 2)]:
        if any(r > t for r in rs):
            js.append(Job("raises[%s->%d]" % (",".join(map(str, rs)), t), "h_uncompact", {"rs": rs, "t": t}))
    return js


_PRE = """
import sys
from a5.core.serialization import serialize, deserialize, get_resolution, cell_to_parent
from a5.core.compact import uncompact
from a5.core.utils import A5Cell
from a5.core.origin import origins
def mk(f,g,S,r):
    if r == -1: return 0
    return serialize(A5Cell(origin=origins[f], segment=g if r>=1 else 0, S=S if r>=2 else 0, resolution=r))
def anc(a, z):
    ra, rz = get_resolution(a), get_resolution(z)
    if ra > rz: return False
    if ra == -1: return True
    da, dz = deserialize(a), deserialize(z)
    if da['origin'].id != dz['origin'].id: return False
    if ra >= 1 and da['segment'] != dz['segment']: return False
    if ra >= 2 and (dz['S'] >> (2*(rz-ra))) != da['S']: return False
    return True
def exp(r,b):
    n=1
    for l in range(r,b): n *= 12 if l==-1 else 5 if l==0 else 4
    return n
def bad(sig):
    print("REPRODUCED " + sig); sys.exit(1)
"""


def replay(cx):
    inp, p = cx["inputs"], cx["params"]
    rs, t = p["rs"], p["t"]
    cells = ", ".join("mk(%d,%d,%d,%d)" % (inp.get("c%d.face" % n, 0), inp.get("c%d.segment" % n, 0),
                                            inp.get("c%d.S" % n, 0), r) for n, r in enumerate(rs))
    ds = ", ".join("mk(%d,%d,%d,%d)" % (inp.get("d%d.face" % n, 0), inp.get("d%d.segment" % n, 0),
                                         inp.get("d%d.S" % n, 0), t) for n, r in enumerate(rs))
    tag = "rs=%s,t=%d" % ("/".join(map(str, rs)), t)
    script = _PRE + """
rs, t = %r, %d
cells = [%s]; ds = [%s]
arg = list(cells)
try:
    out = uncompact(arg, t)
except ValueError:
    if not any(r > t for r in rs): bad("uncompact-raises-without-finer-cell:%s")
    if arg != cells: bad("uncompact-modifies-argument:%s")
    print("ok raises"); sys.exit(0)
except Exception as ex:
    bad("uncompact-unexpected-exception:%s:" + type(ex).__name__)
if any(r > t for r in rs): bad("uncompact-returns-for-finer-cell:%s")
if arg != cells or out is arg: bad("uncompact-modifies-argument:%s")
cnt = [exp(r, t) for r in rs]
if len(out) != sum(cnt): bad("uncompact-length:%s")
off = 0
for n, (r, k) in enumerate(zip(rs, cnt)):
    sl = out[off:off+k]; off += k
    if len(set(sl)) != k: bad("uncompact-duplicates:%s")
    for x in sl:
        if get_resolution(x) != t or cell_to_parent(x, r) != cells[n]: bad("uncompact-wrong-descendant:%s")
    if k == 1 and sl[0] != cells[n]: bad("uncompact-self:%s")
    if anc(cells[n], ds[n]) and ds[n] not in sl: bad("uncompact-incomplete:%s")
print("ok")
""" % (rs, t, cells, ds, tag, tag, tag, tag, tag, tag, tag, tag, tag, tag)
    return {"script": script, "description": "uncompact %s" % tag}


def _patch_offset():
    import a5.core.compact as cm
    orig = cm.get_num_children

    def bad(a, b):
        n = orig(a, b)
        return n + 1 if (a, b) == (1, 3) else n
    cm.get_num_children = bad
    return lambda: setattr(cm, "get_num_children", orig)


def _patch_children():
    import a5.core.compact as cm
    orig = cm.cell_to_children

    def bad(cell, t=None):
        K = orig(cell, t)
        if len(K) == 16:
            K[5], K[6] = K[6], K[6]
        return K
    cm.cell_to_children = bad
    return lambda: setattr(cm, "cell_to_children", orig)


def selftests(seed):
    return [Job("selftest-count", "h_uncompact", {"rs": [0, 1], "t": 3}, {"patch": "_patch_offset"}),
            Job("selftest-dup", "h_uncompact", {"rs": [4], "t": 6}, {"patch": "_patch_children"})]
