"""C12 (partial) - boundary rings are well-formed under every option combination.
The *structure* of the ring is decided with the options symbolic and the float geometry abstracted by
uninterpreted functions with range contracts; simplicity, orientation and the 180-degree span clauses are
geometry of the unprojected values and are not decided (stated in the level note)."""
import math
import z3
from symx import core as sx
from symx import floats as sf
from .common import Job

BOUNDS = {"options": "closed_ring in {omitted, True, False} x segments in {omitted, None, 'auto', symbolic integer 1..16}",
          "cells": "quick: one concrete cell at r in {0,1,2,5,6,7,29} x 3 places (face interior, antimeridian, near a pole); thorough: every r in 0..29",
          "geometry": "DodecahedronProjection.inverse, to_lonlat and the centroid of normalize_longitudes are uninterpreted with range contracts: "
                      "every value they could return is covered"}
OUTSIDE = ["simple (non self-intersecting) ring, counter-clockwise orientation, no 180-degree jump between consecutive vertices, span < 180: "
           "properties of the numeric values of the projection (C13/C03 territory, not applicable to this technique)"]
STUBS = ["a5.core.cell._dodecahedron.inverse(v, origin) -> token (uninterpreted function of the concrete face-plane vertex)",
         "to_lonlat(token) -> (lon, lat) uninterpreted with contract lon in [-273, 87], lat in [-90, 90]; equal tokens give equal values",
         "normalize_longitudes: from_lonlat/to_cartesian/to_spherical -> tokens, the centroid's to_lonlat -> fresh (center_lon, center_lat) in the same ranges"]
ASSUMPTIONS = ["the projection's range contracts (C02's range obligation covers to_lonlat)",
               "real arithmetic for the longitude normalisation (additions/subtractions of 360 and a modulo)"]

PLACES = [(20.0, 40.0), (179.99, -17.0), (10.0, 89.2)]


class Token:
    def __init__(self, key):
        self.key = key


def _install(c, stub_norm=True):
    """returns (undo, info) after replacing the geometry by contract stubs."""
    import a5.core.cell as cm
    import a5.core.coordinate_transforms as ct
    sf.install_float_mode(c, "real")
    f_lon = z3.Function("unproject_lon", z3.RealSort(), z3.RealSort(), z3.IntSort(), z3.RealSort())
    f_lat = z3.Function("unproject_lat", z3.RealSort(), z3.RealSort(), z3.IntSort(), z3.RealSort())
    saved = {"d": cm._dodecahedron, "cm.to_lonlat": cm.to_lonlat, "ct.to_lonlat": ct.to_lonlat, "ct.from_lonlat": ct.from_lonlat,
             "ct.to_cartesian": ct.to_cartesian, "ct.to_spherical": ct.to_spherical}
    state = {"n_inverse": 0, "centres": 0}

    class StubProj:
        def inverse(self, face, origin_id):
            state["n_inverse"] += 1
            return Token(("v", face[0], face[1], int(origin_id)))

        def __getattr__(self, n):
            return getattr(saved["d"], n)

    def to_lonlat(tok):
        if isinstance(tok, Token) and tok.key[0] == "v":
            _, x, y, o = tok.key
            lon = sf.SymReal(f_lon(sf.SymReal._e(x), sf.SymReal._e(y), z3.IntVal(o)))
            lat = sf.SymReal(f_lat(sf.SymReal._e(x), sf.SymReal._e(y), z3.IntVal(o)))
        else:
            state["centres"] += 1
            lon = sf.real_input(c, "center_lon#%d" % state["centres"])
            lat = sf.real_input(c, "center_lat#%d" % state["centres"])
        c.assume(sx.And(lon >= -273, lon <= 87, lat >= -90, lat <= 90))
        return (lon, lat)
    saved["cm.norm"] = cm.normalize_longitudes
    if stub_norm:
        # the real normalize_longitudes is verified separately (h_norm) for arbitrary contours; here its contract is used:
        # same length, same latitudes, longitudes changed by multiples of 360 only
        cm.normalize_longitudes = lambda contour: list(contour)
    cm._dodecahedron = StubProj()
    cm.to_lonlat = to_lonlat
    ct.to_lonlat = to_lonlat
    ct.from_lonlat = lambda ll: Token(("ll",))
    ct.to_cartesian = lambda t: (0.0, 0.0, 1.0)
    ct.to_spherical = lambda xyz: Token(("centre",))

    def undo():
        cm._dodecahedron = saved["d"]
        cm.normalize_longitudes = saved["cm.norm"]
        cm.to_lonlat = saved["cm.to_lonlat"]
        ct.to_lonlat = saved["ct.to_lonlat"]
        ct.from_lonlat = saved["ct.from_lonlat"]
        ct.to_cartesian = saved["ct.to_cartesian"]
        ct.to_spherical = saved["ct.to_spherical"]
    return undo, state


def _mod(x, m):
    return x - m * sf.SymReal(z3.ToReal(z3.ToInt(x.e / m)))


sf.SymReal.__mod__ = lambda self, m: _mod(self, m) if isinstance(m, (int, float)) else NotImplemented


def h_ring(c, r, place, seg_kind, closed_kind):
    import a5
    cid = a5.lonlat_to_cell(PLACES[place], r)
    nverts = 3 if r == 1 else 5
    opts = {}
    if closed_kind == "true":
        opts["closed_ring"] = True
    elif closed_kind == "false":
        opts["closed_ring"] = False
    closed = closed_kind != "false"
    if seg_kind == "none":
        opts["segments"] = None
    elif seg_kind == "auto":
        opts["segments"] = "auto"
    elif seg_kind == "int":
        opts["segments"] = c.int("segments", 1, 16).__index__()     # forks over the 16 values (range() would anyway)
    before = dict(opts)
    undo, state = _install(c)
    try:
        ring = a5.cell_to_boundary(cid, opts) if (opts or closed_kind != "omitted-all") else a5.cell_to_boundary(cid)
        n_inv = state["n_inverse"]
        # reference run with segments=1 for the corner clause (same stubs, same uninterpreted functions)
        ring1 = a5.cell_to_boundary(cid, {"segments": 1, "closed_ring": False})
    finally:
        undo()
    seg = opts.get("segments") if seg_kind == "int" else max(1, 2 ** (6 - r))
    if isinstance(seg, sx.SymInt):
        seg = seg.__index__()
    c.prove(len(ring) == nverts * seg + (1 if closed else 0), "vertex-count==(3|5)*segments(+1-iff-closed)")
    c.prove(n_inv == nverts * seg, "every-ring-vertex-is-an-unprojected-edge-point")
    c.prove(list(opts.items()) == list(before.items()), "options-not-mutated")
    if closed:
        c.prove(ring[0] is ring[-1] or bool(sx.And(ring[0][0] == ring[-1][0], ring[0][1] == ring[-1][1]) is True),
                "closed-ring-repeats-the-first-vertex")
    else:
        c.prove(len(ring) == nverts * seg, "open-ring-has-no-extra-vertex")
    c.prove(sx.And(*[sx.And(p[1] >= -90, p[1] <= 90) for p in ring]), "latitudes-in-[-90,90]")
    # corners do not depend on segments: vertex k*seg of the (reversed) ring vs vertex k of the segments=1 ring
    body = ring[1:] if closed else ring       # closed: [v0, v_{n-1}, ..., v1, v0] after the final reversal
    body = list(reversed(body))
    ref = list(reversed(ring1))
    ok = []
    for k in range(nverts):
        a, b = body[k * seg], ref[k]
        d = a[0] - b[0]
        ok.append(sx.And(a[1] == b[1], d == 0))
    c.prove(sx.And(*ok), "corners-independent-of-segments(before-the-360-normalisation)")


def h_norm(c, n):
    """the real normalize_longitudes on an arbitrary contour of n points (centroid abstracted by its range)."""
    import a5.core.coordinate_transforms as ct
    undo, state = _install(c, stub_norm=False)
    try:
        pts = [(sf.real_input(c, "lon%d" % i, -273, 87), sf.real_input(c, "lat%d" % i, -90, 90)) for i in range(n)]
        arg = list(pts)
        out = ct.normalize_longitudes(arg)
    finally:
        undo()
    c.prove(len(out) == n and out is not arg and len(arg) == n and all(a is b for a, b in zip(arg, pts)), "same-length-fresh-list-argument-untouched")
    c.prove(all(o[1] is p[1] for o, p in zip(out, pts)), "latitudes-passed-through-untouched")
    ok = []
    for o, p in zip(out, pts):
        d = o[0] - p[0]
        ok.append(sx.Or(d == 0, d == 360, d == -360, d == 720, d == -720))
    c.prove(sx.And(*ok), "longitudes-change-by-multiples-of-360-only")
    # documented rule: the ring is normalised about the centroid's longitude wrapped into [-180, 180)
    # (the first point's longitude when the centroid is within 0.01 degrees of a pole)
    clon = c.inputs["center_lon#1"][0]
    clat = c.inputs["center_lat#1"][0]
    clon, clat = sf.SymReal(clon), sf.SymReal(clat)
    near_pole = sx.Or(clat > 89.99, clat < -89.99)
    ok2 = []
    for o in out:
        for centre, cond in ((clon, sx.Not(near_pole)), (pts[0][0], near_pole)):
            # wrapped centre w: w == centre (mod 360), -180 <= w < 180
            wk = [centre + 360 * k for k in (-1, 0, 1, 2)]
            inwin = [sx.And(w >= -180, w < 180) for w in wk]
            within = sx.Or(*[sx.And(iw, o[0] - w <= 180, w - o[0] <= 180) for iw, w in zip(inwin, wk)])
            ok2.append(sx.Implies(cond, within))
    c.prove(sx.And(*ok2), "every-longitude-within-180-of-the-wrapped-centre", info={"candidate": True})


def h_world(c):
    import a5
    c.prove(a5.cell_to_boundary(0) == [] and a5.cell_to_boundary(0, {"segments": 3}) == [], "world-cell-has-no-boundary")


def jobs(tier, seed):
    js = []
    rs = [0, 1, 2, 5, 6, 7, 29] if tier == "quick" else list(range(0, 30))
    for r in rs:
        for place in range(3):
            for seg_kind in ("omitted", "none", "auto", "int"):
                for closed_kind in ("omitted", "true", "false"):
                    if tier == "quick" and seg_kind != "int" and place != (r % 3):
                        continue
                    js.append(Job("ring[r=%d,p=%d,seg=%s,closed=%s]" % (r, place, seg_kind, closed_kind), "h_ring",
                                  {"r": r, "place": place, "seg_kind": seg_kind, "closed_kind": closed_kind},
                                  {"logic": None, "max_paths": 400, "query_timeout_ms": 60000, "feas_timeout_ms": 5000},
                                  weight=16 if seg_kind == "int" else 2 ** max(0, 6 - r) / 8))
    for n in (1, 2, 3, 4):
        js.append(Job("normalize[n=%d]" % n, "h_norm", {"n": n}, {"logic": None, "max_paths": 3000, "feas_timeout_ms": 5000}, weight=3 ** n))
    js.append(Job("world", "h_world", {}, {"logic": None}))
    js.extend(selftests(seed))
    return js


def replay(cx):
    p, inp = cx["params"], cx["inputs"]
    if cx["func"] == "h_norm":
        script = """
import sys, a5
def bad(sig):
    print("REPRODUCED " + sig); sys.exit(1)
from a5.core.coordinate_transforms import normalize_longitudes
# the property's own observable on every cell of resolutions 0..4: no 180-degree jump, span < 180 (cells touching a pole exempt)
for r in range(0, 5):
    for cid in a5.cell_to_children(0, r):
        for seg in (1, 3):
            ring = a5.cell_to_boundary(cid, {"segments": seg, "closed_ring": False})
            lats = [la for lo, la in ring]; lons = [lo for lo, la in ring]
            if max(lats) > 84 or min(lats) < -84: continue
            if max(lons) - min(lons) >= 180: bad("boundary-ring-spans-180-degrees:r=%d" % r)
            if any(abs(lons[i] - lons[i - 1]) >= 180 for i in range(len(lons))): bad("boundary-ring-180-degree-jump:r=%d" % r)
            arg = list(ring); out = normalize_longitudes(arg)
            if arg != ring or len(out) != len(ring) or any(o[1] != p[1] for o, p in zip(out, ring)): bad("normalize_longitudes-contract:r=%d" % r)
print("ok")
"""
        return {"script": script, "description": "longitude normalisation of boundary rings", "candidate": True}
    if cx["func"] != "h_ring":
        return {"script": "import a5,sys\nif a5.cell_to_boundary(0) != []: print('REPRODUCED world-cell-boundary'); sys.exit(1)\nprint('ok')",
                "description": "world"}
    script = """
import sys, a5
def bad(sig):
    print("REPRODUCED " + sig); sys.exit(1)
r, place = %d, %r
cid = a5.lonlat_to_cell(place, r)
nverts = 3 if r == 1 else 5
seg_kind, closed_kind, segn = %r, %r, %d
for segn in ([segn] if seg_kind == "int" else [None]) + ([1, 2, 3, 7, 16] if seg_kind == "int" else []):
    opts = {}
    if closed_kind == "true": opts["closed_ring"] = True
    elif closed_kind == "false": opts["closed_ring"] = False
    if seg_kind == "none": opts["segments"] = None
    elif seg_kind == "auto": opts["segments"] = "auto"
    elif seg_kind == "int": opts["segments"] = segn
    before = dict(opts)
    ring = a5.cell_to_boundary(cid, opts)
    closed = closed_kind != "false"
    seg = segn if seg_kind == "int" else max(1, 2 ** (6 - r))
    tag = "r=%%d,seg=%%s,closed=%%s" %% (r, seg_kind, closed_kind)
    if opts != before: bad("boundary-mutates-options:" + tag)
    if len(ring) != nverts * seg + (1 if closed else 0): bad("boundary-vertex-count:" + tag)
    if closed and ring[0] != ring[-1]: bad("boundary-not-closed:" + tag)
    if not closed and len(ring) > 1 and ring[0] == ring[-1]: bad("boundary-closed-although-open-requested:" + tag)
    if any(not (-90 <= la <= 90) for lo, la in ring): bad("boundary-latitude-range:" + tag)
    ref = a5.cell_to_boundary(cid, {"segments": 1, "closed_ring": False})
    body = list(reversed(ring[1:] if closed else ring)); ref = list(reversed(ref))
    for k in range(nverts):
        a, b = body[k * seg], ref[k]
        if abs(a[1] - b[1]) > 1e-12 or min(abs(a[0] - b[0] - d) for d in (0, 360, -360)) > 1e-9: bad("boundary-corners-depend-on-segments:" + tag)
print("ok")
""" % (p["r"], PLACES[p["place"]], p["seg_kind"], p["closed_kind"], inp.get("segments", 1))
    return {"script": script, "description": "boundary ring structure", "candidate": True}


def _patch_auto():
    import a5.core.cell as cm
    orig = cm.cell_to_boundary
    src = '''
def cell_to_boundary(cell_id, options=None):
    if cell_id == WORLD_CELL:
        return []
    if options is None:
        options = {}
    closed_ring = options.get('closed_ring', True)
    segments = options.get('segments', 'auto')
    cell = deserialize(cell_id)
    if segments == 'auto' or segments is None:
        segments = max(1, 2 ** (5 - cell["resolution"]))
    pentagon = _get_pentagon(cell)
    split_pentagon = pentagon.split_edges(segments)
    vertices = split_pentagon.get_vertices()
    unprojected_vertices = [_dodecahedron.inverse(vertex, cell["origin"].id) for vertex in vertices]
    boundary = [to_lonlat(vertex) for vertex in unprojected_vertices]
    normalized_boundary = normalize_longitudes(boundary)
    if closed_ring:
        normalized_boundary.append(normalized_boundary[0])
    normalized_boundary.reverse()
    return normalized_boundary
'''
    exec(compile(src, cm.__file__, "exec"), cm.__dict__)
    import a5
    a5.cell_to_boundary = cm.cell_to_boundary

    def undo():
        cm.cell_to_boundary = orig
        a5.cell_to_boundary = orig
    return undo


def selftests(seed):
    return [Job("selftest-auto-rule", "h_ring", {"r": 2, "place": 0, "seg_kind": "auto", "closed_kind": "omitted"},
                {"logic": None, "patch": "_patch_auto", "expect_cex": True})]
