import argparse
import importlib
import os
import sys
import time

from . import common


def main():
    ap = argparse.ArgumentParser()
    ap.add_argument("pid")
    ap.add_argument("--tier", default=os.environ.get("VERIF_TIER", "quick"), choices=["quick", "thorough"])
    ap.add_argument("--replay")
    ap.add_argument("--selftest", action="store_true")
    ap.add_argument("--only", help="substring filter on job names (debugging)")
    a = ap.parse_args()
    pid = a.pid.upper()
    if a.replay:
        sys.exit(common.replay_file(a.replay))
    seed = int(os.environ.get("VERIF_SEED", "0") or 0)
    os.environ["VERIF_TIER_ACTIVE"] = a.tier
    mod = importlib.import_module("checks.%s" % pid.lower())
    t0 = time.time()
    if a.selftest:
        sys.exit(selftest(pid, mod, seed))
    jobs = mod.jobs(a.tier, seed)
    if a.only:
        jobs = [j for j in jobs if a.only in j.name]
    for j in jobs:
        j.module = j.module or mod.__name__
        j.opts.setdefault("seed", seed)
    results = common.run_jobs(jobs)
    real = [r for r in results if not r.get("expect_cex")]
    if hasattr(mod, "post_results"):
        extra_rows = list(mod.post_results(real))
        results = results + extra_rows
        real = real + extra_rows
    extra = mod.extra_coverage(a.tier, real) if hasattr(mod, "extra_coverage") else None
    rc = common.finish(pid, a.tier, seed, mod, results, t0, extra_cov=extra)
    sys.exit(rc)


def selftest(pid, mod, seed):
    """Seeded-fault self-test: each patched job must yield a counterexample."""
    jobs = mod.selftests(seed)
    for j in jobs:
        j.module = j.module or mod.__name__
        j.opts.pop("expect_cex", None)
    results = common.run_jobs(jobs)
    bad = 0
    for r in sorted(results, key=lambda r: r["name"]):
        if "error" in r:
            print("SELFTEST %s %s: ERROR %s" % (pid, r["name"], r["error"][-400:]))
            bad += 1
        elif not r["cex"]:
            print("SELFTEST %s %s: MISSED (no counterexample for the seeded fault)" % (pid, r["name"]))
            bad += 1
        else:
            print("SELFTEST %s %s: caught (%s)" % (pid, r["name"], r["cex"][0]["label"]))
    return 3 if bad else 0


if __name__ == "__main__":
    main()
