"""Conformance pass (Serval's trick): the repository's own fixtures are pushed through the symbolic harness
machinery with the symbolic inputs *pinned* to the fixture value (x == c in the path condition, not folded to a
constant), and the model value of the symbolic result must equal what the real function returns concretely.
Validates symx's operator models on the real code paths the checks use."""
import json
import os
from symx import core as sx
from symx import floats as sf
from .common import REPO
from . import shapes


def _result(label, n, bad):
    res = sx.Result()
    st = sx.Stats()
    ob = st.ob(label)
    ob["paths"] = n
    ob["trivial"] = n - len(bad)
    res.stats = st
    res.samples = [{"obligation": label, "claim": "%d fixture values pushed through the symbolic machinery, %d disagreements" % (n, len(bad)), "path": []}]
    if bad:
        raise RuntimeError("symx disagrees with the concrete run on fixtures: %r" % (bad[:4],))
    return res


def serialization(seed=0):
    """tests/core/test-ids.json through serialize / deserialize / cell_to_parent / cell_to_children."""
    import a5.core.serialization as s
    ids = [int(h, 16) for h in json.load(open(os.path.join(REPO, "tests/core/test-ids.json")))]
    bad = []

    def h(c, r):
        ser = shapes.install_symtables()
        f = c.int("face", 0, 11)
        g = c.int("segment", 0, 4)
        S = c.int("S", 0, max(0, 4 ** (r - 1) - 1)) if r >= 2 else 0
        cell = shapes.mkcell(f, g, S, r)
        i = ser.serialize(cell)
        c.observe("id", i)
        d = ser.deserialize(i)
        c.observe("fields", [d["origin"].id, d["segment"], d["S"], d["resolution"]])
        c.observe("parent", ser.cell_to_parent(i))
        if r < 29:
            c.observe("children", ser.cell_to_children(i))
    for x in ids:
        d = s.deserialize(x)
        r = d["resolution"]
        pins = {"face": d["origin"].id, "segment": d["segment"], "S": d["S"]}
        from symx import shared
        snap = shared.snapshot_state()
        res = sx.explore(h, {"r": r}, pins=pins)
        shared.restore_state(snap)
        if len(res.observations) != 1:
            bad.append(("paths", hex(x), len(res.observations), res.inconclusive[:1]))
            continue
        o = res.observations[0]
        exp_children = s.cell_to_children(x) if r < 29 else None
        if o["id"] != x or o["fields"] != [d["origin"].id, d["segment"], d["S"], r] or o["parent"] != s.cell_to_parent(x) \
                or (exp_children is not None and o["children"] != exp_children):
            bad.append((hex(x), o))
    try:
        shapes.ser().origins = shapes._installed.get("origins", shapes.ser().origins)
    except Exception:
        pass
    return _result("conformance:test-ids.json through serialize/deserialize/parent/children", len(ids), bad)


def compaction(seed=0):
    """tests/fixtures/compact.json through the symbolic compact/uncompact runs (ids pinned)."""
    import a5
    import a5.core.serialization as s
    from . import compactsym
    fx = json.load(open(os.path.join(REPO, "tests/fixtures/compact.json")))
    bad = []
    n = 0

    def h(c, rs, mode, t):
        ser, cm = compactsym.install()
        ids = []
        for k, r in enumerate(rs):
            _, cid = shapes.symid(c, "x%d" % k, r)
            ids.append(cid)
        if mode == "compact":
            c.observe("out", cm.compact(ids))
        else:
            c.observe("out", cm.uncompact(ids, t))
    for case in fx["compact"] + fx["uncompact"]:
        cells = [int(hx, 16) for hx in case["input"]]
        if not cells or len(cells) > 6 or case.get("expectedError"):
            continue
        mode = "uncompact" if "targetResolution" in case else "compact"
        t = case.get("targetResolution")
        rs = [s.get_resolution(x) for x in cells]
        pins = {}
        for k, x in enumerate(cells):
            d = s.deserialize(x)
            pins.update({"x%d.face" % k: d["origin"].id, "x%d.segment" % k: d["segment"], "x%d.S" % k: d["S"]})
        from symx import shared
        snap = shared.snapshot_state()
        res = sx.explore(h, {"rs": rs, "mode": mode, "t": t}, pins=pins, max_paths=2000)
        shared.restore_state(snap)
        n += 1
        exp = a5.compact(cells) if mode == "compact" else a5.uncompact(cells, t)
        shared.restore_state(snap)
        got = [o["out"] for o in res.observations]
        if got != [exp]:
            bad.append((case["name"], got[:2], exp[:4]))
    return _result("conformance:compact.json through compact/uncompact", n, bad)


def hilbert(seed=0, full=False, part=None, parts=1):
    """the indices of tests/core/test_hilbert.py through the merged s_to_anchor (pinned s)."""
    from . import c18
    import a5.core.hilbert as hh
    bad = []
    idx = (0, 1, 2, 3, 4, 9, 16, 17, 31, 77, 100, 101, 170, 411, 1762, 4410, 12387, 41872)
    if full:
        cases = [(s, 20, o) for o in c18.ORIENTATIONS for s in idx]
        cases += [(s, 3, o) for s in range(0, 64, 3) for o in ("uv", "wu", "vw")]
    else:
        cases = [(s, 20, o) for k, o in enumerate(c18.ORIENTATIONS) for s in idx[k::6][:1]]
        cases += [(s, 3, o) for s in range(0, 64, 7) for o in ("uv", "wu", "vw")]

    if part is not None:
        cases = cases[part::parts]

    def h(c, hlev, o):
        H = c18.install_merged()
        sf.install_float_mode(c, "intbv")
        s = c.int("s", 0, 4 ** hlev - 1)
        a = H.s_to_anchor(s, hlev, o)
        c.observe("anchor", [a.k, a.offset[0], a.offset[1], a.flips[0], a.flips[1]])
    from symx import shared
    for s0, hlev, o in cases:
        snap = shared.snapshot_state()          # both evaluations start from the same (import-time) module state
        res = sx.explore(h, {"hlev": hlev, "o": o}, pins={"s": s0}, tactic="qfbv")
        shared.restore_state(snap)
        c18.restore()
        hh.int = int
        hh.math = __import__("math")
        a = hh.s_to_anchor(s0, hlev, o)
        exp = [a.k, float(a.offset[0]), float(a.offset[1]), a.flips[0], a.flips[1]]
        shared.restore_state(snap)
        got = [[float(v) if isinstance(v, (int, float)) and i in (1, 2) else v for i, v in enumerate(ob["anchor"])] for ob in res.observations]
        if got != [exp]:
            bad.append((s0, hlev, o, got[:1], exp))
    return _result("conformance:test_hilbert indices through merged s_to_anchor", len(cases), bad)
