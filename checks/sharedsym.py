"""Common machinery of C16 (schedules) and C17 (histories): UF math shim, symbolic argument
synthesis for the vector/geometry units, target enumeration."""
import importlib
import inspect
import math
import sys
import z3
from symx import core as sx
from symx import floats as sf
from symx import shared
from .common import REPO

_UF = {}


def uf(name, arity=1):
    k = (name, arity)
    if k not in _UF:
        _UF[k] = z3.Function("libm_" + name, *([z3.RealSort()] * arity + [z3.RealSort()]))
    return _UF[k]


class UFMath:
    """libm as uninterpreted functions on symbolic reals (exact real math on concrete floats)."""

    def __getattr__(self, name):
        f = getattr(math, name)
        if not callable(f):
            return f

        def g(*a):
            if not any(isinstance(x, (sf.SymFloat, sx.SymInt)) for x in a):
                return f(*a)
            if name == "isnan" or name == "isinf":
                return False
            if name == "fabs":
                return abs(a[0])
            if name in ("floor", "ceil", "trunc", "log2", "log"):
                raise sx.Unsupported("math.%s of a symbolic float" % name)
            es = [sf.SymReal._e(x) for x in a]
            y = uf(name, len(es))(*es)
            c = sx._CTX
            # documented range contracts (every stub is listed in the evidence)
            if name == "sqrt":
                c.assume(sx.SymBool(z3.And(y >= 0, (y == 0) == (es[0] == 0))))
            elif name in ("sin", "cos"):
                c.assume(sx.SymBool(z3.And(y >= -1, y <= 1)))
            elif name == "acos":
                c.assume(sx.SymBool(z3.And(y >= 0, y <= sf.rval(math.pi))))
            elif name in ("asin", "atan"):
                c.assume(sx.SymBool(z3.And(y >= sf.rval(-math.pi / 2), y <= sf.rval(math.pi / 2))))
            elif name == "atan2":
                c.assume(sx.SymBool(z3.And(y >= sf.rval(-math.pi), y <= sf.rval(math.pi))))
            return sf.SymReal(y)
        return g


MATH_MODULES = ["a5.core.cell", "a5.core.origin", "a5.core.tiling", "a5.projections.crs", "a5.math.vec3", "a5.math.vec2", "a5.math.quat", "a5.geometry.spherical_polygon", "a5.geometry.pentagon",
                "a5.projections.polyhedral", "a5.projections.gnomonic", "a5.projections.dodecahedron",
                "a5.core.coordinate_transforms", "a5.projections.authalic"]


def install_uf_math():
    shim = UFMath()
    old = []
    for mn in MATH_MODULES:
        m = importlib.import_module(mn)
        if hasattr(m, "math"):
            old.append((m, m.math))
            m.math = shim

    def undo():
        for m, o in old:
            m.math = o
    return undo


from .targets import unit_targets, make_call as _make_call  # noqa: E402,F401


def make_call(c, mn, qual):
    return _make_call(lambda name, n: _inp(c, name, n), mn, qual)


_INPUTS = {}


def _inp(c, name, n):
    key = (id(c), c.stats.paths, name, n)
    if key not in _INPUTS:
        if len(_INPUTS) > 2000:
            _INPUTS.clear()
        _INPUTS[key] = [sf.real_input(c, "%s.%d" % (name, i)) for i in range(n)]
    return _INPUTS[key]


def flat(v):
    out = []
    if isinstance(v, (list, tuple)):
        for x in v:
            out.extend(flat(x))
    else:
        out.append(v)
    return out


def same(a, b):
    """symbolic equality of two (nested) results."""
    fa, fb = flat(a), flat(b)
    if len(fa) != len(fb):
        return False
    conds = []
    for x, y in zip(fa, fb):
        if isinstance(x, (sf.SymFloat, sx.SymInt)) or isinstance(y, (sf.SymFloat, sx.SymInt)):
            conds.append(x == y)
        elif isinstance(x, float) and isinstance(y, float):
            if not (x == y or (x != x and y != y)):
                return False
        elif x != y:
            return False
    return sx.And(*conds) if conds else True
