"""Targets of the unit-level shared-state checks and argument synthesis, free of symx/z3 imports so
that the replay scheduler (run under the repository's interpreter) can use the same definitions.
`inp(name, n)` provides n numbers (symbolic reals in the checks, concrete floats in replays)."""
import importlib
import inspect

def unit_targets():
    """(label, module, qualname) for every function of the vector modules and the geometry/projection
    classes whose arguments can be synthesised."""
    out = []
    for mn in ("a5.math.vec3", "a5.math.vec2", "a5.math.quat"):
        m = importlib.import_module(mn)
        for name, fn in sorted(vars(m).items()):
            if inspect.isfunction(fn) and fn.__module__ == mn and not name.startswith("_"):
                out.append(("%s.%s" % (mn.split(".")[-1], name), mn, name))
    out += [("SphericalPolygonShape.%s[%d]" % (meth, n), "a5.geometry.spherical_polygon", "SphericalPolygonShape.%s/%d" % (meth, n))
            for n in (3, 5) for meth in ("get_area", "contains_point", "get_boundary", "slerp", "get_transformed_vertices")]
    out.append(("SphericalPolygonShape.get_triangle_area", "a5.geometry.spherical_polygon", "SphericalPolygonShape.get_triangle_area/3"))
    out += [("PolyhedralProjection.forward", "a5.projections.polyhedral", "PolyhedralProjection.forward"),
            ("PolyhedralProjection.inverse", "a5.projections.polyhedral", "PolyhedralProjection.inverse"),
            ("PentagonShape.contains_point", "a5.geometry.pentagon", "PentagonShape.contains_point"),
            ("PentagonShape.get_center", "a5.geometry.pentagon", "PentagonShape.get_center"),
            ("authalic.forward", "a5.core.coordinate_transforms", "authalic.forward"),
            ("authalic.inverse", "a5.core.coordinate_transforms", "authalic.inverse"),
            ("from_lonlat", "a5.core.coordinate_transforms", "from_lonlat"),
            ("to_lonlat", "a5.core.coordinate_transforms", "to_lonlat"),
            ("gnomonic.forward", "a5.core.cell", "_dodecahedron.gnomonic.forward"),
            ("gnomonic.inverse", "a5.core.cell", "_dodecahedron.gnomonic.inverse"),
            ("to_cartesian", "a5.core.coordinate_transforms", "to_cartesian"),
            ("to_spherical", "a5.core.coordinate_transforms", "to_spherical"),
            ("face_to_barycentric", "a5.core.coordinate_transforms", "face_to_barycentric"),
            ("barycentric_to_face", "a5.core.coordinate_transforms", "barycentric_to_face")]
    seen = set()
    res = []
    for t in out:
        if t[0] not in seen:
            seen.add(t[0])
            res.append(t)
    return res


_SIZES = {"vec3": 3, "vec2": 2, "quat": 4}


def make_call(inp, mn, qual):
    """returns a zero-argument callable running the target on symbolic inputs, built from the
    parameter names/annotations; the same symbolic inputs are used for every call with equal tag-less
    names (the input symbols are declared once per name)."""
    m = importlib.import_module(mn)
    if qual.split(".")[0] in ("authalic", "_dodecahedron"):
        obj = m
        for part in qual.split(".")[:-1]:
            obj = getattr(obj, part)      # the module-level singleton itself (shared between callers)
        meth = getattr(obj, qual.split(".")[-1])
        if qual.startswith("authalic"):
            a = inp("phi", 1)[0]
            return (lambda: meth(a)), [a]
        a = tuple(inp("sph", 2))
        return (lambda: meth(a)), [a]
    if qual in ("from_lonlat", "to_lonlat"):
        fn = getattr(m, qual)
        a = tuple(inp("ll", 2))
        return (lambda: fn(a)), [a]
    if "." not in qual:
        fn = getattr(m, qual)
        short = mn.split(".")[-1]
        dim = _SIZES.get(short, 3)
        sig = inspect.signature(fn)
        args = []
        for pn, p in sig.parameters.items():
            ann = str(p.annotation)
            if pn == "out":
                args.append([0.0] * dim)
            elif pn in ("s", "t", "x", "y", "z", "w", "rad") or "float" in ann and "List" not in ann and "Vec" not in ann and "Tuple" not in ann:
                args.append(inp(pn, 1)[0])
            elif pn == "q" or "quat" in ann.lower():
                args.append(inp(pn, 4))
            elif pn == "m":
                args.append(inp(pn, 4))
            elif pn == "spherical" or pn == "polar":
                args.append(tuple(inp(pn, 2)))
            elif pn == "triangle":
                args.append(tuple(tuple(inp("tri%d" % i, 2)) for i in range(3)))
            elif pn in ("p", "b") and short == "coordinate_transforms":
                args.append(tuple(inp(pn, 3 if pn == "b" else 2)))
            elif pn == "xyz":
                args.append(tuple(inp(pn, 3)))
            else:
                args.append(tuple(inp(pn, dim)))
        return lambda: fn(*args), args
    cls_name, meth = qual.split(".")
    meth, _, nv = meth.partition("/")
    cls = getattr(m, cls_name)
    if cls_name == "SphericalPolygonShape":
        n = int(nv or 3)
        verts = [tuple(inp("V%d" % i, 3)) for i in range(n)]
        if meth == "get_triangle_area":
            obj = cls(verts)
            return (lambda: obj.get_triangle_area(verts[0], verts[1], verts[2])), [verts]
        if meth == "get_area":
            return (lambda: cls(verts).get_area()), [verts]
        if meth == "contains_point":
            pt = tuple(inp("P", 3))
            return (lambda: cls(verts).contains_point(pt)), [verts, pt]
        if meth == "get_boundary":
            return (lambda: cls(verts).get_boundary(2, True)), [verts]
        if meth == "slerp":
            return (lambda: cls(verts).slerp(1.5)), [verts]
        if meth == "get_transformed_vertices":
            return (lambda: cls(verts).get_transformed_vertices(1)), [verts]
    if cls_name == "PolyhedralProjection":
        sph = tuple(tuple(inp("S%d" % i, 3)) for i in range(3))
        face = tuple(tuple(inp("F%d" % i, 2)) for i in range(3))
        obj = cls()
        if meth == "forward":
            v = tuple(inp("v", 3))
            return (lambda: obj.forward(v, sph, face)), [v, sph, face]
        fp = tuple(inp("fp", 2))
        return (lambda: obj.inverse(fp, face, sph)), [fp, face, sph]
    if cls_name == "PentagonShape":
        verts = [tuple(inp("V%d" % i, 2)) for i in range(5)]
        if meth == "contains_point":
            pt = tuple(inp("P", 2))

            def call():
                o = cls.__new__(cls)
                o.vertices = list(verts)
                o._is_winding_correct = lambda: True
                return o.contains_point(pt)
            return call, [verts, pt]

        def call2():
            o = cls.__new__(cls)
            o.vertices = list(verts)
            return o.get_center()
        return call2, [verts]
    raise NotImplementedError("no argument synthesis for %s" % qual)


