"""C18 - curve index <-> lattice position is a bijection for all orientations and levels.

Decomposition (assume-guarantee; every part executes the real code):
 (D) digit passes: unshift(shift(s)) == s through the real control flow of s_to_anchor/ij_to_s,
     all indices of a level in one bit-vector query (split by number of significant digits so that
     the real `while s > 0 or ...` loop does not fork).
 (G) geometric digit extraction, one inductive level step on the real ij_to_quaternary /
     quaternary_to_kj / kj_to_ij / quaternary_to_flips (linear real arithmetic).
 (B) placement/base lemma: for every orientation, level, final (k, flips) and *every real offset*
     the real s_to_anchor post-transform -> get_pentagon_vertices -> get_center -> face_to_ij ->
     ij_to_s pre-transform puts the centre inside the cell's own unit triangle with margin.
 (F) filling: every anchor's lattice triangle lies inside the segment triangle: monolithic bit-vector
     query for small levels (the h=16 query timed out at 600 s); for all levels it follows by
     induction from (G)'s containment obligation (child triangle inside the parent's).
 (E) exactness premise: the digit loop of the real _ij_to_s passes exactly (input - pivot)/2^i to the extraction at every
     level (symbolic real input, extraction stubbed to arbitrary symbolic digits).
 (R) the whole real round trip without stubs for small levels, with a symbolic perturbation.
"""
import z3
from symx import core as sx
from symx import floats as sf
from symx.merge import merged
from .common import Job

ORIENTATIONS = ["uv", "vu", "uw", "wu", "vw", "wv"]
E_PERT = 1e-3        # symbolic perturbation budget on the centre (lattice units); float rounding is < 2e-6
MARGIN_REQ = 0.1     # required margin of the centre inside its unit triangle
YES, NO = -1, 1
FLIPS = [(NO, NO), (NO, YES), (YES, NO), (YES, YES)]

BOUNDS = {
    "quick": {"(D) levels": "h in {1,2,3,4,8,16,28}, 6 orientations, all 4^h indices (h+1 bit-vector queries per level)",
              "(G)": "all 4 flip states x 4 digits, point symbolic over the open unit triangle (LRA)",
              "(B)": "levels h in {1,2,3,8,28}, 6 orientations, 16 (k,flips) states, offsets symbolic reals in [-2^29, 2^29]^2, perturbation |e| <= 1e-3",
              "(F)": "monolithic for h in {1,2,3,4} (every index); all levels by induction from (G)'s containment obligation", "(R)": "h <= 3, all indices, 6 orientations, perturbation |e| <= 1e-3"},
    "thorough": {"(D) levels": "every h in 1..28, 6 orientations, all 4^h indices", "(G)": "as quick",
                 "(B)": "every h in 1..28", "(F)": "monolithic for h <= 8; all levels by induction from (G)", "(R)": "h <= 4"},
}
OUTSIDE = ["levels above 28 (not used: MAX_RESOLUTION 30 -> h <= 29, h = 29 is the C05 known finding)",
           "quintants other than 0 in (B)/(R): the caller rotates into quintant 0 before face_to_ij",
           "IEEE rounding inside get_pentagon_vertices/get_center/face_to_ij is covered by the symbolic perturbation budget, not modelled bit-precisely"]
STUBS = ["a5.core.hilbert.int -> identity on SymInt",
         "(D): ij_to_quaternary stubbed to return the forward pass' final digits (its geometry is (G)+(B)'s obligation); "
         "_shift_digits, quaternary_to_flips, quaternary_to_kj merged (all paths, ite-joined)",
         "(B): _s_to_anchor / _ij_to_s replaced by capture stubs so that only the orientation pre/post transforms and the real tiling/pentagon code run"]
ASSUMPTIONS = ["float evaluation of get_pentagon_vertices -> get_center -> face_to_ij at |offset| <= 2^29 deviates from exact real arithmetic by "
               "<= 1e-3 lattice units (actual bound ~2e-6); the digit loop of _ij_to_s is exact in floats (integer pivots < 2^53, division by 2^i, "
               "Sterbenz subtraction)",
               "induction: (B) gives the base rho_0 in T(f_final), (G) the step, (D) the digit transducers; composition argued in DESIGN.md C18",
               "(G)/(B) invariant witness T(f): F != 0: a<1,b>0,c>0; F == 0: c<1,b>0,a>0 in the code's own (a,b,c) convention; a failing lemma "
               "whose witness does not reproduce on the real round trip is reported inconclusive"]


def _hil():
    import a5.core.hilbert as h
    return h


_orig = {}


def _save():
    h = _hil()
    if "done" not in _orig:
        for name in ("_shift_digits", "quaternary_to_flips", "quaternary_to_kj", "ij_to_quaternary", "kj_to_ij",
                     "_s_to_anchor", "_ij_to_s"):
            _orig[name] = getattr(h, name)
        _orig["done"] = True
    return h


def restore():
    h = _save()
    for name, fn in _orig.items():
        if name != "done":
            setattr(h, name, fn)
    from symx import shims
    h.int = shims.INT
    h.math = shims.INT_MATH
    return h


def install_merged():
    """Merge the small digit helpers; shim int() (int(SymInt) is the identity)."""
    h = restore()
    h._shift_digits = merged(_orig["_shift_digits"], "_shift_digits")
    h.quaternary_to_flips = merged(_orig["quaternary_to_flips"], "quaternary_to_flips")
    h.quaternary_to_kj = merged(_orig["quaternary_to_kj"], "quaternary_to_kj")
    return h


# ---------------------------------------------------------------------------------- (D)
def _srange(c, h, o, j):
    """indices whose value *as seen by _s_to_anchor* (after the orientation's reversal) has exactly j
    significant digits: the real `while s > 0 or ...` loop then runs without forking."""
    if j is None:
        return c.int("s", 0, 4 ** h - 1)
    lo, hi = (0, 0) if j == 0 else (4 ** (j - 1), 4 ** j - 1)
    if o in ("vu", "wu", "vw"):
        lo, hi = 4 ** h - 1 - hi, 4 ** h - 1 - lo
    return c.int("s", lo, hi)


def h_digits(c, h, o, j=None, cuts=True):
    """unshift(shift(s)) == s through the real control flow of s_to_anchor / ij_to_s.
    cuts=True: the forward pass names the parent digit entering each level by a fresh variable with its
    defining equation in the path condition (exact cut points); at every level of the inverse pass the
    harness proves that the real _shift_digits restores exactly the values the forward pass consumed at
    that level and continues with those (proven equal) terms, so every query is local to one level;
    cuts=False: one monolithic query (used as cross-check for small levels)."""
    H = install_merged()
    sf.install_float_mode(c, "intbv")
    s = _srange(c, h, o, j)
    spy = []
    qk = H.quaternary_to_kj
    sd = H._shift_digits
    fwd = {}

    def spy_kj(n, flips):
        spy.append(n)
        return qk(n, flips)

    def fwd_shift(digits, i, flips, invert_j, pattern):
        if i >= 1:
            if cuts and i < len(digits):
                digits[i] = c.cut(digits[i], "p%d" % i)      # keeps every level's terms shallow
            rec = {"in_parent": digits[i] if i < len(digits) else 0, "in_child": digits[i - 1], "flips": tuple(flips)}
        r = sd(digits, i, flips, invert_j, pattern)
        if i >= 1:
            rec["out_parent"] = digits[i] if i < len(digits) else 0
            rec["out_child"] = digits[i - 1]
            fwd[i] = rec
        return r
    H.quaternary_to_kj = spy_kj
    H._shift_digits = fwd_shift
    try:
        anchor = H.s_to_anchor(s, h, o)
    finally:
        H.quaternary_to_kj = qk
        H._shift_digits = sd
    final_digits = list(spy)          # most significant first
    c.prove(len(final_digits) == h, "forward-processes-h-digits")
    if len(final_digits) != h:
        return
    c.prove(anchor.k == final_digits[-1], "anchor.k-is-the-last-digit")
    feed = list(final_digits)
    ok = [True]

    def stub_ij_to_quaternary(ij, flips):
        return feed.pop(0)

    def inv_shift(digits, i, flips, invert_j, pattern):
        if i >= 1 and i in fwd and cuts and ok[0]:
            rec = fwd[i]
            same_flips = sx.And(flips[0] == rec["flips"][0], flips[1] == rec["flips"][1])
            if c.prove(same_flips, "cut:inverse-flips==forward-flips-at-level") is not True:
                ok[0] = False
            if i < len(digits) and c.prove(digits[i] == rec["out_parent"], "cut:inverse-parent-in==forward-parent-out") is True:
                digits[i] = rec["out_parent"]
            else:
                ok[0] = False
            if c.prove(digits[i - 1] == rec["out_child"], "cut:inverse-child-in==forward-child-out") is True:
                digits[i - 1] = rec["out_child"]
            else:
                ok[0] = False
        r = sd(digits, i, flips, invert_j, pattern)
        if i >= 1 and i in fwd and cuts and ok[0]:
            rec = fwd[i]
            if c.prove(digits[i - 1] == rec["in_child"], "cut:restored-child-digit==original-digit") is True:
                digits[i - 1] = rec["in_child"]
            else:
                ok[0] = False
            if c.prove(digits[i] == rec["in_parent"], "cut:restored-parent==forward-parent-in") is True:
                digits[i] = rec["in_parent"]
            else:
                ok[0] = False
        return r
    H.ij_to_quaternary = stub_ij_to_quaternary
    H._shift_digits = inv_shift
    try:
        back = H.ij_to_s((0.0, 0.0), h, o)
    finally:
        H.ij_to_quaternary = _orig["ij_to_quaternary"]
        H._shift_digits = sd
    c.prove(back == s, "unshift(shift(s))==s")
    c.prove(sx.And(*[sx.And(d >= 0, d <= 3) for d in final_digits]), "digits-are-quaternary")


# ---------------------------------------------------------------------------------- (G)
def T(u, v, f, margin=0.0):
    """invariant witness: open unit triangle of a cell with flips f (shrunk by margin)."""
    a = -(u + v) if f[0] == YES else u + v
    b = -u if f[1] == YES else u
    cc = -v if f[0] == YES else v
    if f[0] + f[1] == 0:
        return sx.And(cc < 1 - margin, b > margin, a > margin)
    return sx.And(a < 1 - margin, b > margin, cc > margin)


def h_step(c, f, d):
    H = restore()
    sf.install_float_mode(c, "real")
    nf = H.quaternary_to_flips(d)
    f2 = (f[0] * nf[0], f[1] * nf[1])
    u = sf.real_input(c, "u", -3, 3)
    v = sf.real_input(c, "v", -3, 3)
    c.assume(T(u, v, f2))
    off = H.kj_to_ij(H.quaternary_to_kj(d, tuple(f)))
    x = (off[0] + u, off[1] + v)
    got = merged(_orig["ij_to_quaternary"], "ij_to_quaternary")(x, tuple(f))
    c.prove(got == d, "step:extracted-digit==d", info={"candidate": True})
    c.prove(T(x[0] / 2, x[1] / 2, f), "step:halved-point-stays-in-parent-triangle", info={"candidate": True})


# ---------------------------------------------------------------------------------- (B)
def h_base(c, h, o):
    H = restore()
    sf.install_float_mode(c, "real")
    import a5.core.tiling as tiling
    import a5.core.coordinate_transforms as ct
    ou = sf.real_input(c, "ou", -2 ** 29, 2 ** 29)
    ov = sf.real_input(c, "ov", -2 ** 29, 2 ** 29)
    eu = sf.real_input(c, "eu", -E_PERT, E_PERT)
    ev = sf.real_input(c, "ev", -E_PERT, E_PERT)
    cap = {}
    try:
        for k in range(4):
            for f in FLIPS:
                H._s_to_anchor = lambda s, r, inv, fl, k=k, f=f: H.Anchor(k, (ou, ov), f)

                def cap_ij(ij, inv, fl, res):
                    cap["ij"] = ij
                    return 0
                H._ij_to_s = cap_ij
                anchor = H.s_to_anchor(0, h, o)
                pent = tiling.get_pentagon_vertices(h, 0, anchor)
                ctr = pent.get_center()
                scaled = (ctr[0] * (2 ** h) + 0, ctr[1] * (2 ** h) + 0)
                ij = ct.face_to_ij(scaled)
                ij = (ij[0] + eu, ij[1] + ev)
                H.ij_to_s(ij, h, o)
                x = cap["ij"]
                ru, rv = x[0] - ou, x[1] - ov
                c.prove(T(ru, rv, f), "base:centre-in-own-unit-triangle[k=%d,f=%s]" % (k, _fs(f)),
                        info={"candidate": True, "k": k, "f": f, "h": h, "o": o})
    finally:
        restore()


def _fs(f):
    return "".join("Y" if x == YES else "N" for x in f)


# ---------------------------------------------------------------------------------- (F)
def h_fill(c, h, invert_j, flip_ij, j):
    H = install_merged()
    sf.install_float_mode(c, "intbv")
    s = c.int("s", 4 ** (j - 1), 4 ** j - 1) if j >= 1 else c.int("s", 0, 0)
    a = H._s_to_anchor(s, h, invert_j, flip_ij)
    i0, j0 = a.offset
    fx, fy = a.flips
    n = 2 ** h
    # triangle vertices relative to the anchor per flip state
    verts = {(NO, NO): [(0, 0), (1, 0), (0, 1)], (YES, YES): [(0, 0), (-1, 0), (0, -1)],
             (YES, NO): [(0, 0), (0, -1), (1, -1)], (NO, YES): [(0, 0), (0, 1), (-1, 1)]}
    conds = []
    for f, vs in verts.items():
        inside = sx.And(*[sx.And(i0 + du >= 0, j0 + dv >= 0, i0 + du + j0 + dv <= n) for du, dv in vs])
        conds.append(sx.Implies(sx.And(fx == f[0], fy == f[1]), inside))
    c.prove(sx.And(*conds), "fill:cell-triangle-inside-segment-triangle")
    c.prove(sx.And(sx.Or(fx == 1, fx == -1), sx.Or(fy == 1, fy == -1), a.k >= 0, a.k <= 3), "fill:flips-and-k-well-formed")


# ---------------------------------------------------------------------------------- (E)
def h_loop_exact(c, h, o):
    """premise of the induction: the digit loop of the real _ij_to_s hands ij_to_quaternary EXACTLY (input - pivot)/2^i at
    every level (no rounding, clamping or snapping in between), for every real input."""
    H = restore()
    sf.install_float_mode(c, "real")
    u = sf.real_input(c, "u", -2 ** 29, 2 ** 29)
    v = sf.real_input(c, "v", -2 ** 29, 2 ** 29)
    seen = []
    real_q = _orig["ij_to_quaternary"]
    digs = [c.int("d%d" % i, 0, 3) for i in range(h)]
    feed = list(digs)

    def spy(ij, flips):
        seen.append((ij, tuple(flips)))
        return feed.pop(0)
    H.ij_to_quaternary = spy
    H.quaternary_to_kj = merged(_orig["quaternary_to_kj"], "quaternary_to_kj")
    H.quaternary_to_flips = merged(_orig["quaternary_to_flips"], "quaternary_to_flips")
    H._shift_digits = merged(_orig["_shift_digits"], "_shift_digits")
    try:
        H.ij_to_s((u, v), h, o)
    finally:
        restore()
    c.prove(len(seen) == h, "loop:one-extraction-per-level")
    # expected arguments recomputed independently: pivot accumulates kj_to_ij(quaternary_to_kj(d, flips)) * 2^i
    flip_ij = o in ("wu", "uw")
    invert_j = o in ("wv", "vw")
    iu, iv_ = (v, u) if flip_ij else (u, v)
    if invert_j:
        iv_ = (1 << h) - (iu + iv_)
    pu, pv = 0.0, 0.0
    fl = [NO, NO]
    ok = []
    qk = merged(_orig["quaternary_to_kj"], "quaternary_to_kj")
    qf = merged(_orig["quaternary_to_flips"], "quaternary_to_flips")
    for n, i in enumerate(range(h - 1, -1, -1)):
        scale = 1 << i
        (au, av), fseen = seen[n]
        ok.append(sx.And(au == (iu - pu) / scale, av == (iv_ - pv) / scale, fseen[0] == fl[0], fseen[1] == fl[1]))
        kj = qk(digs[n], tuple(fl))
        off = _orig["kj_to_ij"](kj)
        pu, pv = pu + off[0] * scale, pv + off[1] * scale
        nf = qf(digs[n])
        fl = [fl[0] * nf[0], fl[1] * nf[1]]
    c.prove(sx.And(*ok), "loop:extraction-argument==(input-pivot)/2^i-exactly", info={"candidate": True, "h": h, "o": o})


# ---------------------------------------------------------------------------------- (R)
def h_real(c, h, o):
    H = restore()
    sf.install_float_mode(c, "real")
    import a5.core.tiling as tiling
    import a5.core.coordinate_transforms as ct
    s = c.int("s", 0, 4 ** h - 1)
    sv = s.__index__() if isinstance(s, sx.SymInt) else s
    eu = sf.real_input(c, "eu", -E_PERT, E_PERT)
    ev = sf.real_input(c, "ev", -E_PERT, E_PERT)
    anchor = H.s_to_anchor(sv, h, o)
    ctr = tiling.get_pentagon_vertices(h, 0, anchor).get_center()
    ij = ct.face_to_ij((ctr[0] * 2 ** h, ctr[1] * 2 ** h))
    back = H.ij_to_s((ij[0] + eu, ij[1] + ev), h, o)
    c.prove(back == sv, "real-round-trip:ij_to_s(centre(s_to_anchor(s)))==s")


# ---------------------------------------------------------------------------------------
def jobs(tier, seed):
    js = []
    hs = [1, 2, 3, 4, 8, 16, 28] if tier == "quick" else list(range(1, 29))
    opt = {"tactic": "qfbv", "query_timeout_ms": 600000}
    for h in hs:
        for o in ORIENTATIONS:
            for j in range(0, h + 1):
                js.append(Job("D[h=%d,%s,j=%d]" % (h, o, j), "h_digits", {"h": h, "o": o, "j": j}, dict(opt), weight=j))
            if h <= (4 if tier == "quick" else 8):
                js.append(Job("Dmono[h=%d,%s]" % (h, o), "h_digits", {"h": h, "o": o, "j": None, "cuts": False}, dict(opt), weight=h))
        for inv, fl in ((False, False), (True, False), (False, True)):
            if h > (6 if tier == "quick" else 8):
                continue    # beyond this the monolithic query does not finish; filling follows from (G) by induction
            for j in range(0, h + 1):
                js.append(Job("F[h=%d,inv=%d,flip=%d,j=%d]" % (h, inv, fl, j), "h_fill",
                              {"h": h, "invert_j": inv, "flip_ij": fl, "j": j}, dict(opt), weight=j / 2))
    for f in FLIPS:
        for d in range(4):
            js.append(Job("G[f=%s,d=%d]" % (_fs(f), d), "h_step", {"f": list(f), "d": d}, {"logic": None}, weight=1))
    bh = [1, 2, 3, 8, 28] if tier == "quick" else list(range(1, 29))
    for h in bh:
        for o in ORIENTATIONS:
            js.append(Job("B[h=%d,%s]" % (h, o), "h_base", {"h": h, "o": o}, {"logic": None}, weight=3))
    for h in ([1, 2, 3] if tier == "quick" else [1, 2, 3, 4, 6]):
        for o in ORIENTATIONS:
            js.append(Job("E[h=%d,%s]" % (h, o), "h_loop_exact", {"h": h, "o": o}, {"logic": None, "max_paths": 2000}, weight=2))
    for h in ([1, 2, 3] if tier == "quick" else [1, 2, 3, 4]):
        for o in ORIENTATIONS:
            js.append(Job("R[h=%d,%s]" % (h, o), "h_real", {"h": h, "o": o}, {"logic": None, "max_paths": 100000}, weight=4 ** h / 4))
    for part in range(12):
        js.append(Job("conformance[test_hilbert indices %d/12]" % part, "conf_hilbert", {"full": tier != "quick", "part": part, "parts": 12},
                      {"direct": True}, weight=30))
    return js


def conf_hilbert(seed=0, full=False, part=None, parts=1):
    from . import conformance
    return conformance.hilbert(seed, full, part, parts)


_PRE = """
import sys
from a5.core.hilbert import s_to_anchor, ij_to_s
from a5.core.tiling import get_pentagon_vertices
from a5.core.coordinate_transforms import face_to_ij
def rt(s, h, o):
    a = s_to_anchor(s, h, o)
    c = get_pentagon_vertices(h, 0, a).get_center()
    return ij_to_s(face_to_ij((c[0] * 2**h, c[1] * 2**h)), h, o)
def bad(sig):
    print("REPRODUCED " + sig); sys.exit(1)
"""


def replay(cx):
    inp, p, f = cx["inputs"], cx["params"], cx["func"]
    if f in ("h_digits", "h_real"):
        return {"script": _PRE + """
s, h, o = %d, %d, %r
try:
    b = rt(s, h, o)
except Exception as ex:
    bad("round-trip-raises:h=%%d,%%s:%%s" %% (h, o, type(ex).__name__))
if b != s: bad("round-trip-mismatch:h=%%d,%%s" %% (h, o))
print("ok")
""" % (inp["s"], p["h"], p["o"]), "description": "index round trip"}
    if f == "h_fill":
        return {"script": _PRE + """
from a5.core.hilbert import _s_to_anchor
s, h = %d, %d
a = _s_to_anchor(s, h, %r, %r)
V = {(1,1): [(0,0),(1,0),(0,1)], (-1,-1): [(0,0),(-1,0),(0,-1)], (-1,1): [(0,0),(0,-1),(1,-1)], (1,-1): [(0,0),(0,1),(-1,1)]}
for du, dv in V[tuple(a.flips)]:
    i, j = a.offset[0] + du, a.offset[1] + dv
    if i < 0 or j < 0 or i + j > 2**h: bad("cell-outside-segment-triangle:h=%%d" %% h)
print("ok")
""" % (inp["s"], p["h"], p["invert_j"], p["flip_ij"]), "description": "filling"}
    # lemma candidates: try the real round trip on every index of small levels, on random indices and on
    # digit-pattern-directed indices (cells hugging the edges of coarse triangles: X000.., X333.., +-1) of deep levels
    h = p.get("h", 3)
    return {"script": _PRE + """
import random
rnd = random.Random(7)
for o in %r:
    for h in sorted({1, 2, 3, 4, %d}):
        ss = range(4**h) if h <= 4 else [rnd.randrange(4**h) for _ in range(2000)]
        for s in ss:
            if rt(s, h, o) != s: bad("round-trip-mismatch:h=%%d,%%s" %% (h, o))
    for h in (12, 19, 20, 21, 22, 23, 24, 26, 28):
        cand = set()
        for lead in range(1, 16):
            for nd in (1, 2):
                if lead >= 4 ** nd or nd > h: continue
                base = lead * 4 ** (h - nd)
                for tail in (0, 4 ** (h - nd) - 1, (4 ** (h - nd) - 1) // 3, 2 * (4 ** (h - nd) - 1) // 3):
                    for d in (-1, 0, 1):
                        v = base + tail + d
                        if 0 <= v < 4 ** h: cand.add(v)
        for s in sorted(cand):
            if rt(s, h, o) != s: bad("round-trip-mismatch:h=%%d,%%s" %% (h, o))
print("ok")
""" % ([p["o"]] if "o" in p else ORIENTATIONS, h), "description": "lemma witness -> real round trip", "candidate": True}


# ---- seeded faults -----------------------------------------------------------------------
def _patch_pattern_fwd():
    """swap two entries of the forward shift pattern only (the reversed table stays)."""
    h = _hil()
    old = list(h.PATTERN)
    h.PATTERN[2], h.PATTERN[3] = h.PATTERN[3], h.PATTERN[2]
    return lambda: h.PATTERN.__setitem__(slice(None), old)


def _patch_quaternary():
    h = _save()
    orig = _orig["ij_to_quaternary"]

    def bad(ij, flips):
        u, v = ij
        if flips[0] == YES and flips[1] == YES:
            a, b, cc = -(u + v), -u, -v
            if a < 1:
                return 0
            if b > 1.05:
                return 3
            if cc > 1:
                return 2
            return 1
        return orig(ij, flips)
    _orig["ij_to_quaternary"] = bad
    h.ij_to_quaternary = bad

    def undo():
        _orig["ij_to_quaternary"] = orig
        h.ij_to_quaternary = orig
    return undo


def selftests(seed):
    return [Job("selftest-pattern[D,h=6]", "h_digits", {"h": 6, "o": "uv", "j": 6}, {"tactic": "qfbv", "patch": "_patch_pattern_fwd"}),
            Job("selftest-threshold[G]", "h_step", {"f": [YES, YES], "d": 3}, {"logic": None, "patch": "_patch_quaternary"})]
