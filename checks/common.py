"""Shared driver for the per-property checks: job fan-out over cores, counterexample replay
against the unmodified API under /venv/bin/python, known-findings handling, evidence."""
import hashlib
import importlib
import json
import multiprocessing as mp
import os
import re
import subprocess
import sys
import time
import traceback

VERIF = os.path.dirname(os.path.dirname(os.path.abspath(__file__)))
REPO = os.environ.get("A5_REPO", "/repo")
REPLAY_PY = os.environ.get("A5_REPLAY_PY", "/venv/bin/python")
EXIT_OK, EXIT_VIOLATION, EXIT_HARNESS = 0, 1, 3


class Job:
    def __init__(self, name, func, params=None, opts=None, module=None, weight=1.0, bounds=None):
        self.name = name
        self.func = func            # name of harness function in the check module
        self.params = params or {}
        self.opts = opts or {}
        self.module = module
        self.weight = weight        # scheduling hint (bigger first)
        self.bounds = bounds


_TRACE_FUNCS = None
_SX = None


def _profiler(frame, event, arg):
    if event == "call":
        co = frame.f_code
        fn = co.co_filename
        if fn.startswith(REPO + "/a5") and co.co_name[0] != "<" and _SX._CTX is not None:
            _TRACE_FUNCS.add((fn[len(REPO) + 1:], co.co_name))


def run_job(job):
    """Executed in a worker process."""
    global _TRACE_FUNCS, _SX
    sys.setrecursionlimit(20000)
    t0 = time.time()
    out = {"name": job.name, "func": job.func, "params": _jsonable(job.params)}
    try:
        from symx import core as sx
        _SX = sx
        import a5  # noqa: F401  (import-time code runs before tracing starts)
        import a5.core.compact, a5.core.cell, a5.core.hilbert, a5.core.tiling  # noqa: F401,E401
        mod = importlib.import_module(job.module)
        fn = getattr(mod, job.func)
        _TRACE_FUNCS = set()
        opts = dict(job.opts)
        patch = opts.pop("patch", None)
        undo = None
        if patch is not None:
            undo = getattr(mod, patch)()
        direct = opts.pop("direct", False)
        out["expect_cex"] = bool(opts.pop("expect_cex", False))
        trace = opts.pop("trace", True)
        if trace:
            sys.setprofile(_profiler)
        try:
            if direct:
                opts.pop("seed", None)
                res = fn(**job.params, **opts)
            else:
                opts.setdefault("time_budget", float(os.environ.get("VERIF_JOB_BUDGET", "0")) or
                                (300.0 if os.environ.get("VERIF_TIER_ACTIVE", "quick") == "quick" else 2400.0))
                if os.environ.get("VERIF_TIER_ACTIVE") == "thorough":
                    opts.setdefault("crosscheck", 2)      # two queries per job are decided a second time by cvc5
                # hard wall-clock limit (the time budget is only looked at between paths): a single runaway path of a
                # changed tree ends as INCONCLUSIVE instead of hanging the check
                import signal

                def _alarm(signum, frame):
                    raise sx.Inconclusive("job wall-clock limit reached inside one path")
                signal.signal(signal.SIGALRM, _alarm)
                signal.alarm(int(opts["time_budget"] * 2) + 30)
                try:
                    res = sx.explore(_isolated(fn), job.params, **opts)
                finally:
                    signal.alarm(0)
        finally:
            sys.setprofile(None)
            if undo is not None:
                undo()
        st = res.stats
        out.update({
            "paths": st.paths, "aborted_paths": st.aborted_paths, "decisions": st.decisions,
            "feas_queries": st.feas_queries, "feas_time": st.feas_time, "queries": st.queries,
            "query_time": st.query_time, "verdicts": st.verdicts, "obligations": st.obligations,
            "merged_calls": st.merged_calls, "merged_paths": st.merged_paths,
            "cex": res.counterexamples, "inconclusive": res.inconclusive[:20],
            "n_inconclusive": len(res.inconclusive),
            "samples": res.samples[:6], "functions": sorted(_TRACE_FUNCS), "traced": bool(trace),
            "extra": getattr(res, "extra", None), "crosscheck": getattr(st, "crosscheck", None),
        })
    except BaseException as ex:  # noqa
        out["error"] = "%s: %s\n%s" % (type(ex).__name__, ex, traceback.format_exc()[-3000:])
    out["wall"] = time.time() - t0
    if os.environ.get("VERIF_VERBOSE"):
        print("  job %-40s %7.1fs %s" % (job.name, out["wall"], "ERROR" if "error" in out else
              "paths=%s %s" % (out.get("paths"), out.get("verdicts"))), file=sys.stderr, flush=True)
    return out


def _isolated(fn):
    """every path starts from the module state the job started with: shared containers / singleton attributes of the
    a5 package (including ones a changed tree adds, e.g. memo dicts) are snapshotted before and restored after each
    execution of the harness, so nothing leaks from one explored path into the next."""
    from symx import shared

    def run(c, **kw):
        snap = shared.snapshot_state()
        try:
            return fn(c, **kw)
        finally:
            try:
                shared.restore_state(snap)
            except Exception:
                pass
    run.__name__ = getattr(fn, "__name__", "harness")
    return run


def _jsonable(x):
    try:
        json.dumps(x)
        return x
    except Exception:
        return repr(x)


def run_jobs(jobs, procs=None):
    procs = procs or int(os.environ.get("VERIF_PROCS", "0")) or min(16, os.cpu_count() or 4)
    if not jobs:
        return []
    # function tracing (sys.setprofile) slows symx ~3x: trace only the two lightest jobs per harness
    seen = {}
    for j in sorted(jobs, key=lambda j: j.weight):
        k = seen.get(j.func, 0)
        j.opts["trace"] = k < 2
        seen[j.func] = k + 1
    jobs = sorted(jobs, key=lambda j: -j.weight)
    if procs == 1 or len(jobs) == 1:
        return [run_job(j) for j in jobs]
    ctx = mp.get_context("fork")
    with ctx.Pool(min(procs, len(jobs)), maxtasksperchild=8) as pool:
        return list(pool.imap_unordered(run_job, jobs, chunksize=1))


# --------------------------------------------------------------------------------------
def file_hashes(functions):
    files = sorted({f for f, _ in functions})
    out = {}
    for f in files:
        try:
            out[f] = hashlib.sha256(open(os.path.join(REPO, f), "rb").read()).hexdigest()[:16]
        except OSError:
            out[f] = "missing"
    return out


def load_known():
    p = os.path.join(VERIF, "known_findings.json")
    if not os.path.exists(p):
        return []
    return json.load(open(p)).get("findings", [])


def match_known(pid, signature, known):
    for k in known:
        if k.get("property") != pid or k.get("status", "open") != "open":
            continue
        if "signature" in k and k["signature"] == signature:
            return k
        if "signature_re" in k and re.fullmatch(k["signature_re"], signature or ""):
            return k
    return None


def run_replay_script(script, timeout=600):
    """Run a replay script under the repository's own interpreter against /repo.
    Contract: prints `REPRODUCED <signature>` lines for violations that reproduce."""
    env = dict(os.environ)
    env["PYTHONPATH"] = REPO
    env.pop("A5PY_VERIF", None)
    try:
        p = subprocess.run([REPLAY_PY, "-c", script], cwd=REPO, env=env, capture_output=True,
                           text=True, timeout=timeout)
    except subprocess.TimeoutExpired:
        return {"status": "timeout", "stdout": "", "stderr": "", "signatures": []}
    sigs = [l.split(" ", 1)[1].strip() if " " in l else "" for l in p.stdout.splitlines()
            if l.startswith("REPRODUCED")]
    if not sigs and p.returncode != 0 and "Traceback" in p.stderr:
        # the replay itself died inside the library: the real code raises on the reported input
        tb = p.stderr.strip().splitlines()
        frames = [l for l in tb if l.strip().startswith("File ")]
        if frames and "/a5/" in frames[-1]:
            sigs = ["library-raises-on-replayed-input:%s" % tb[-1].split(":")[0].strip()]
    return {"status": "ok" if p.returncode in (0, 1) else "error", "rc": p.returncode,
            "stdout": p.stdout[-4000:], "stderr": p.stderr[-4000:], "signatures": sigs}


def finish(pid, tier, seed, mod, results, t0, extra_cov=None, assumptions=None):
    """Aggregate job results, replay counterexamples, write evidence, print verdict lines,
    return the exit code."""
    known = load_known()
    # seeded-fault self-test jobs: must yield a counterexample; their results are not part of the verdict
    selftest_rows = [r for r in results if r.get("expect_cex")]
    results = [r for r in results if not r.get("expect_cex")]
    selftest_missed = [r["name"] for r in selftest_rows if "error" in r or not r.get("cex")]
    errors = [r for r in results if "error" in r]
    tot = {"paths": 0, "decisions": 0, "feas_queries": 0, "queries": 0, "query_time": 0.0,
           "feas_time": 0.0, "merged_calls": 0, "merged_paths": 0, "aborted_paths": 0}
    verdicts = {"unsat": 0, "sat": 0, "unknown": 0}
    obligations = {}
    functions = set()
    samples = []
    inconclusive = []
    cexs = []
    jobrows = []
    for r in results:
        if "error" in r:
            continue
        for k in tot:
            tot[k] += r.get(k, 0)
        for k in verdicts:
            verdicts[k] += r["verdicts"].get(k, 0)
        for lab, ob in r["obligations"].items():
            o = obligations.setdefault(lab, {})
            for k, v in ob.items():
                o[k] = o.get(k, 0) + v
        functions.update(tuple(f) for f in r["functions"])
        for s in r["samples"][:2]:
            if len(samples) < 12:
                samples.append(dict(s, job=r["name"]))
        for m in r["inconclusive"]:
            inconclusive.append("%s: %s" % (r["name"], m))
        for cx in r["cex"]:
            cexs.append(dict(cx, job=r["name"], func=r["func"], params=r["params"]))
        jobrows.append({"job": r["name"], "paths": r["paths"], "queries": r["queries"],
                        "verdicts": r["verdicts"], "wall_s": round(r["wall"], 2)})
    n_inconclusive = sum(r.get("n_inconclusive", 0) for r in results if "error" not in r)
    xc = {"agree": 0, "cvc5_unknown": 0, "disagree": 0, "error": 0}
    for r in results:
        for k, v in (r.get("crosscheck") or {}).items():
            xc[k] = xc.get(k, 0) + v

    # ---- replay
    os.makedirs(os.path.join(VERIF, "replays"), exist_ok=True)
    violations, known_hits, nonrepro = [], {}, []
    candidates_unconfirmed = []
    seen_sig = set()
    for cx in cexs:
        rp = mod.replay(cx)
        if rp is None:
            nonrepro.append({"cex": cx, "why": "no replay available"})
            continue
        rr = run_replay_script(rp["script"])
        if not rr["signatures"]:
            cand = rp.get("candidate") or (isinstance(cx.get("info"), dict) and cx["info"].get("candidate"))
            if cand and rr["status"] == "ok":
                # witness of a sufficient-condition / abstraction-level obligation that does not violate the
                # property as stated on the real API: inconclusive, never an alarm
                candidates_unconfirmed.append("%s: %s (witness %s did not reproduce on the real API)" % (
                    cx.get("job"), cx.get("label"), json.dumps(cx.get("inputs"), default=str)[:200]))
                continue
            nonrepro.append({"cex": cx, "replay": rr})
            continue
        for sig in rr["signatures"]:
            if sig in seen_sig:
                continue
            seen_sig.add(sig)
            kf = match_known(pid, sig, known)
            if kf is not None:
                known_hits[sig] = kf
                continue
            h = hashlib.sha256((pid + sig).encode()).hexdigest()[:12]
            path = os.path.join(VERIF, "replays", "%s-%s.json" % (pid, h))
            json.dump({"property": pid, "signature": sig, "counterexample": cx,
                       "script": rp["script"], "description": rp.get("description"),
                       "replay_output": rr["stdout"],
                       "replay_cmd": "./check %s --replay %s" % (pid, path)},
                      open(path, "w"), indent=1, default=str)
            violations.append((sig, path))

    # ---- evidence
    n_ob = sum(o.get("paths", 0) for o in obligations.values())
    n_nontrivial = sum(o.get("nontrivial", 0) for o in obligations.values())
    n_trivial = sum(o.get("trivial", 0) for o in obligations.values())
    discharged = verdicts["unsat"] + n_trivial
    cov = {
        "explanation": "bounded symbolic verification (SMT): the repository's real functions are "
                       "executed on symbolic proxies (symx), every feasible path is explored by "
                       "re-execution and each obligation is decided by z3 for all input values within "
                       "the stated bounds; sat answers are replayed on the unmodified API before being "
                       "reported",
        "evaluations": max(1, verdicts["unsat"] + verdicts["sat"] + verdicts["unknown"] + tot["feas_queries"]),
        "distinct_nontrivial": n_nontrivial,
        "rule": "one case = one (job, obligation label, feasible path) triple; non-trivial = the "
                "obligation's formula mentions a symbolic input and was sent to the solver (obligations "
                "already decided by concrete execution / interval analysis on the path are counted as "
                "trivial and excluded); distinct by construction (paths are disjoint decision sequences)",
        "samples": samples or [{"note": "no obligations discharged"}],
        "obligations": n_ob,
        "discharged": discharged,
        "obligations_by_label": obligations,
        "property_queries": verdicts["unsat"] + verdicts["sat"] + verdicts["unknown"],
        "feasibility_queries": tot["feas_queries"],
        "verdicts": verdicts,
        "paths_explored": tot["paths"],
        "paths_aborted_infeasible": tot["aborted_paths"],
        "decisions": tot["decisions"],
        "merged_calls": tot["merged_calls"], "merged_paths": tot["merged_paths"],
        "solver_time_s": round(tot["query_time"] + tot["feas_time"], 3),
        "functions_encoded": ["%s:%s" % f for f in sorted(functions)],
        "functions_encoded_note": "repository functions entered while symbolic inputs were live, recorded with sys.setprofile on "
                                  "the two lightest jobs of every harness (%d of %d jobs traced; tracing slows symx ~3x)"
                                  % (sum(1 for r in results if r.get("traced")), len(results)),
        "source_sha256_16": file_hashes(functions),
        "bounds": getattr(mod, "BOUNDS", {}).get(tier, getattr(mod, "BOUNDS", {})),
        "outside_bounds": getattr(mod, "OUTSIDE", []),
        "stubs": getattr(mod, "STUBS", []),
        "inconclusive": n_inconclusive + len(candidates_unconfirmed),
        "inconclusive_messages": (inconclusive + candidates_unconfirmed)[:10],
        "candidate_witnesses_not_reproduced": len(candidates_unconfirmed),
        "non_reproducing_models": len(nonrepro),
        "known_findings_hit": sorted(known_hits),
        "jobs": _toprows(jobrows),
        "job_errors": [r["error"][-600:] for r in errors][:5],
        "cvc5_crosscheck": xc if tier == "thorough" else "thorough tier only",
        "seeded_fault_selftests": {"run": len(selftest_rows), "caught": len(selftest_rows) - len(selftest_missed),
                                   "missed": selftest_missed},
        "trusted_base": ["CPython executing the real code on symx proxies", "z3 %s" % _z3v(),
                         "interval/known-bits guard tying bit-vectors to Python ints"],
        "checker_cmd": "./check %s --tier %s" % (pid, tier),
    }
    if extra_cov:
        cov.update(extra_cov)
    ev = {
        "property_id": pid, "tier": tier, "seed": seed, "level": "other",
        "coverage": cov,
        "assumptions": list(assumptions or getattr(mod, "ASSUMPTIONS", [])),
        "wall_s": round(time.time() - t0, 2),
        "violations": len(violations),
    }
    evdir = os.environ.get("VERIF_EVIDENCE_DIR") or os.path.join(VERIF, "evidence")
    os.makedirs(evdir, exist_ok=True)
    json.dump(ev, open(os.path.join(evdir, "%s.json" % pid), "w"), indent=1, default=str)

    # ---- report
    print("%s tier=%s jobs=%d paths=%d obligations=%d (non-trivial %d) unsat=%d sat=%d unknown=%d "
          "inconclusive=%d solver=%.1fs wall=%.1fs" % (
              pid, tier, len(results), tot["paths"], n_ob, n_nontrivial, verdicts["unsat"],
              verdicts["sat"], verdicts["unknown"], n_inconclusive,
              tot["query_time"] + tot["feas_time"], time.time() - t0))
    for m in (inconclusive + candidates_unconfirmed)[:8]:
        print("INCONCLUSIVE %s" % m)
    for sig, kf in sorted(known_hits.items()):
        print("KNOWN-FINDING: property=%s %s" % (pid, kf.get("description", sig)))
    for sig, path in violations:
        print("VIOLATION property=%s replay=%s" % (pid, path))
        print("  signature: %s" % sig)
    rc = EXIT_OK
    if errors:
        for r in errors[:3]:
            print("HARNESS-ERROR job=%s\n%s" % (r["name"], r["error"]), file=sys.stderr)
        rc = EXIT_HARNESS
    if nonrepro:
        for n in nonrepro[:3]:
            print("HARNESS-ERROR non-reproducing model: %s" % json.dumps(n, default=str)[:1500], file=sys.stderr)
        rc = EXIT_HARNESS
    if xc.get("disagree"):
        print("HARNESS-ERROR z3 and cvc5 disagree on %d queries" % xc["disagree"], file=sys.stderr)
        rc = EXIT_HARNESS
    if selftest_missed:
        print("HARNESS-ERROR seeded-fault self-test not caught: %s" % selftest_missed, file=sys.stderr)
        rc = EXIT_HARNESS
    if n_ob == 0 and not errors:
        print("HARNESS-ERROR no obligation reached (vacuous run)", file=sys.stderr)
        rc = EXIT_HARNESS
    if violations:
        rc = EXIT_VIOLATION
    return rc


def _toprows(rows, n=60):
    rows = sorted(rows, key=lambda r: -r["wall_s"])
    return rows if len(rows) <= n else rows[:n] + [{"more_jobs_not_listed": len(rows) - n}]


def _z3v():
    try:
        import z3
        return z3.get_version_string()
    except Exception:
        return "?"


def replay_file(path):
    d = json.load(open(path))
    rr = run_replay_script(d["script"])
    print(rr["stdout"])
    if rr["stderr"]:
        print(rr["stderr"], file=sys.stderr)
    if rr["signatures"]:
        print("VIOLATION property=%s replay=%s" % (d["property"], path))
        return EXIT_VIOLATION
    print("not reproduced")
    return EXIT_OK
