"""C09 - compact output is the unique minimal, duplicate-free representation (antichain inputs)."""
import itertools
from .common import Job
from . import compactsym
from .compactsym import h_compact, h_order  # noqa: F401
from .c08 import name, weight

BOUNDS = {
    "quick": {"free cells": "every multiset of 1..3 cells with resolutions from {-1,0,1,2,3}, restricted to antichains (equal cells allowed)",
              "sibling groups": "complete group of a symbolic parent at res {-1,0,1,2,5} + <=1 free cell from {0,1,2,3}; two-level groups of parents at res {0,1,2} + <=1 free cell",
              "order independence": "lists of <=3 cells, reversed + one duplicate"},
    "thorough": {"free cells": "multisets of 1..4 cells from {-1,0,1,2,3}",
                 "sibling groups": "group of parent res {-1,0,1,2,5,28} + <=2 free cells; two groups; two-level groups + <=1 free cell",
                 "order independence": "lists of <=3 cells"},
}
OUTSIDE = ["more than 4 free cells beyond the groups", "free cells finer than resolution 6", "lists longer than ~30 ids"]
STUBS = ["serialization.origins through SymTable (ite over the real table)",
         "a5.core.compact.set -> symset (lifts concrete ints so equality with symbolic ids is decided by the solver)"]
ASSUMPTIONS = ["precondition of the property: no input cell is an ancestor of another (equal cells allowed)",
               "canonical = coverage-preserving (C08) + duplicate-free + antichain + no complete sibling group; "
               "sibling groups are judged on decoded fields, not with is_first_child/get_stride"]

RES = [-1, 0, 1, 2, 3]


def shapes_for(tier):
    out = []
    nmax = 3 if tier == "quick" else 4
    for n in range(1, nmax + 1):
        for rs in itertools.combinations_with_replacement(RES, n):
            out.append({"free": list(rs)})
    out.append({"free": [2, 2, 2, 2]})
    out.append({"free": [3, 3, 3, 3]})
    gres = [-1, 0, 1, 2, 5] if tier == "quick" else [-1, 0, 1, 2, 5, 28]
    for rp in gres:
        out.append({"groups": [(rp, 1)]})
        for r in [0, 1, 2, 3]:
            out.append({"groups": [(rp, 1)], "free": [r]})
        if tier != "quick":
            for rs in itertools.combinations_with_replacement([0, 1, 2], 2):
                out.append({"groups": [(rp, 1)], "free": list(rs)})
    for rp in [0, 1, 2]:
        out.append({"groups": [(rp, 2)]})
        for r in ([0, 2] if tier == "quick" else [0, 1, 2, 3]):
            out.append({"groups": [(rp, 2)], "free": [r]})
    out.append({"groups": [(1, 1)], "free": [2], "dup": True})
    for rp in ([-1, 0, 1, 2] if tier == "quick" else [-1, 0, 1, 2, 5]):
        out.append({"groups": [(rp, 1)], "drop": 1})
    for rq in [-1, 0, 1, 2, 5]:
        out.append({"cascade": [(rq, 1)]})
        if tier != "quick":
            out.append({"cascade": [(rq, 0)]})
    out.append({"cascade": [(2, 3)], "free": [2]})
    for rr, cnt in [(0, 11), (1, 5), (1, 6), (2, 4), (2, 5), (3, 4), (3, 8), (7, 4), (25, 4), (28, 5), (29, 4)]:
        out.append({"runs": [(rr, cnt)]})
    out.append({"groups": [(0, 1), (0, 1)]})
    out.append({"groups": [(1, 1), (0, 1)]})
    out.append({"groups": [(27, 1)], "free": [28]})
    out.append({"cascade": [(26, 2)]})
    out.append({"groups": [(28, 1)]})
    if tier != "quick":
        for a, b in [(0, 0), (0, 1), (1, 1), (1, 2), (2, 2), (0, 2)]:
            out.append({"groups": [(a, 1), (b, 1)]})
            out.append({"groups": [(a, 1), (b, 1)], "free": [0]})
    return out


def jobs(tier, seed):
    js = [Job("canonical[%s]" % name(sh), "h_compact", {"shape": sh, "mode": "canonical", "seed": seed},
              {"max_paths": 60000}, weight=weight(sh)) for sh in shapes_for(tier)]
    for n in (2, 3):
        for rs in itertools.combinations_with_replacement([0, 1, 2, 3], n):
            js.append(Job("order[%s]" % "/".join(map(str, rs)), "h_order", {"rs": list(rs), "seed": seed}, {"max_paths": 60000}, weight=3 ** n))
    return js


def replay(cx):
    if cx["func"] == "h_order":
        return {"script": compactsym.replay_script(cx, "canonical"), "description": "compact order independence"}
    return {"script": compactsym.replay_script(cx, "canonical"), "description": "compact canonical %s" % name(cx["params"]["shape"])}


def _patch_dedup():
    import a5.core.compact as cm
    orig = cm.set

    def bad(it=()):
        items = list(it)
        if len(items) == 3:
            return items          # duplicates survive
        return orig(items)
    cm.set = bad
    return lambda: setattr(cm, "set", orig)


def selftests(seed):
    return [Job("selftest-dedup", "h_compact", {"shape": {"free": [2, 2, 2]}, "mode": "canonical", "seed": 0},
                {"patch": "_patch_dedup", "max_paths": 60000})]
