"""C08 - compact never changes the covered region (pointwise oracle on decoded fields)."""
import itertools
from .common import Job
from . import compactsym
from .compactsym import h_compact  # noqa: F401

BOUNDS = {
    "quick": {"free cells": "every multiset of 1..3 cells with resolutions from {-1,0,1,2,3} (positions symbolic: duplicates, "
                            "ancestor/descendant pairs, any faces)",
              "sibling groups": "complete group of a symbolic parent at res {-1,0,1,2,5} (12/5/4/4/4 children) + <=1 free cell of res {-1,0,1,2,3}; "
                                "two-level groups (all grandchildren) of a parent at res {0,1,2} + <=1 free cell",
              "coverage witness z": "symbolic finest-resolution cell (all of them at once)"},
    "thorough": {"free cells": "every multiset of 1..4 cells with resolutions from {-1,0,1,2,3}",
                 "sibling groups": "group of parent res {-1,0,1,2,5,28} + <=2 free cells from {-1,0,1,2,3}; two groups; two-level groups + <=1 free cell",
                 "coverage witness z": "symbolic finest-resolution cell"},
}
OUTSIDE = ["more than 4 free cells beyond the groups", "free cells finer than resolution 6 (the code is uniform in r >= 2: stated, not proved)",
           "lists longer than ~30 ids"]
STUBS = ["serialization.origins through SymTable (ite over the real table)",
         "a5.core.compact.set -> symset: lifts concrete ints so symbolic and concrete ids hash alike (equality decided by the solver)"]
ASSUMPTIONS = ["validity predicate only; the input list is arbitrary otherwise",
               "the input region of a complete sibling group is its parent cell (children completeness is C06's obligation)",
               "output ids are decoded with the real deserialize (C05 obligation: it inverts serialize)"]

RES = [-1, 0, 1, 2, 3]


def shapes_for(tier):
    out = []
    nmax = 3 if tier == "quick" else 4
    for n in range(1, nmax + 1):
        for rs in itertools.combinations_with_replacement(RES, n):
            out.append({"free": list(rs)})
    for rs in ([2, 2, 2, 2], [3, 3, 3, 3], [1, 1, 1, 1, 1]):
        if tier != "quick" or len(rs) == 4:
            out.append({"free": rs})
    gres = [-1, 0, 1, 2, 5] if tier == "quick" else [-1, 0, 1, 2, 5, 28]
    for rp in gres:
        out.append({"groups": [(rp, 1)]})
        for r in RES:
            out.append({"groups": [(rp, 1)], "free": [r]})
        if tier != "quick":
            for rs in itertools.combinations_with_replacement([0, 1, 2], 2):
                out.append({"groups": [(rp, 1)], "free": list(rs)})
    for rp in [0, 1, 2]:
        out.append({"groups": [(rp, 2)]})
        for r in ([0, 2] if tier == "quick" else RES):
            out.append({"groups": [(rp, 2)], "free": [r]})
    out.append({"groups": [(1, 1)], "free": [2], "dup": True})
    # holey groups: one sibling replaced by an arbitrary finer cell (possibly inside the hole)
    for rp in ([-1, 0, 1, 2] if tier == "quick" else [-1, 0, 1, 2, 5]):
        for drop in ((1,) if tier == "quick" else (0, 1, 2)):
            out.append({"groups": [(rp, 1)], "drop": drop, "free": [rp + 2]})
            out.append({"groups": [(rp, 1)], "drop": drop})
    # cascades: must compact over two passes to a single cell
    for rq in [-1, 0, 1, 2, 5]:
        out.append({"cascade": [(rq, 1)]})
    out.append({"cascade": [(2, 3)], "free": [2]})
    # misaligned runs of consecutive cells
    for rr, cnt in [(0, 11), (1, 5), (1, 6), (2, 4), (2, 5), (3, 4), (3, 8), (7, 4), (25, 4), (28, 5), (29, 4)]:
        out.append({"runs": [(rr, cnt)]})
    out.append({"groups": [(0, 1), (0, 1)]})
    out.append({"groups": [(1, 1), (0, 1)]})
    out.append({"groups": [(27, 1)], "free": [28]})
    out.append({"cascade": [(26, 2)]})
    out.append({"groups": [(28, 1)]})
    if tier != "quick":
        for a, b in [(0, 0), (0, 1), (1, 1), (1, 2), (2, 2), (0, 2)]:
            out.append({"groups": [(a, 1), (b, 1)]})
            out.append({"groups": [(a, 1), (b, 1)], "free": [0]})
    return out


def weight(shape):
    from .c06 import expected_children
    return sum(expected_children(rp, rp + lv) for rp, lv in shape.get("groups", [])) + 3 ** len(shape.get("free", [])) \
        + 20 * len(shape.get("cascade", [])) + sum(n for r, n in shape.get("runs", []))


def name(shape):
    nm = "free=%s;groups=%s%s" % ("/".join(map(str, shape.get("free", []))),
                                  "/".join("%d+%d" % tuple(g) for g in shape.get("groups", [])),
                                  ";dup" if shape.get("dup") else "")
    for key in ("drop", "cascade", "runs"):
        if shape.get(key) is not None:
            nm += ";%s=%s" % (key, str(shape[key]).replace(" ", ""))
    return nm


def conf_compaction(seed=0):
    from . import conformance
    return conformance.compaction(seed)


def jobs(tier, seed):
    js = [Job("coverage[%s]" % name(sh), "h_compact", {"shape": sh, "mode": "coverage", "seed": seed},
              {"max_paths": 60000}, weight=weight(sh)) for sh in shapes_for(tier)]
    js.append(Job("conformance[compact.json]", "conf_compaction", {}, {"direct": True}, weight=3))
    return js


def replay(cx):
    return {"script": compactsym.replay_script(cx, "coverage"), "description": "compact coverage %s" % name(cx["params"]["shape"])}


def _patch_stride():
    import a5.core.compact as cm
    orig = cm.is_first_child

    def bad(index, resolution=None):
        if resolution is not None and resolution == 3:
            return (index & (1 << 54)) == 0     # only one of the two S bits tested
        return orig(index, resolution)
    cm.is_first_child = bad
    return lambda: setattr(cm, "is_first_child", orig)


def selftests(seed):
    return [Job("selftest-first-child", "h_compact", {"shape": {"free": [3, 3, 3, 3]}, "mode": "coverage", "seed": 0},
                {"patch": "_patch_stride", "max_paths": 60000})]
