"""Discovery of shared mutable state in the a5 package (pure python, no z3): every module-level list/dict and
every list/dict attribute of module-level instances of classes defined in the package."""
import sys
import types


class _NoHook:
    pass


HookedList = HookedDict = _NoHook

def discover(pkg_prefix="a5"):
    """[(owner description, setter, container)] for every module-level mutable list/dict and every
    list/dict attribute of module-level instances of classes defined in the package."""
    found = []
    seen = set()
    for modname, mod in sorted(sys.modules.items()):
        if mod is None or not (modname == pkg_prefix or modname.startswith(pkg_prefix + ".")):
            continue
        for name, val in sorted(vars(mod).items()):
            if name.startswith("__"):
                continue
            if isinstance(val, (list, dict)):
                if id(val) in seen:
                    continue
                seen.add(id(val))
                found.append(("%s.%s" % (modname, name), ("mod", mod, name), val))
            elif hasattr(val, "__dict__") and not isinstance(val, (type, types.ModuleType, types.FunctionType)) \
                    and type(val).__module__.startswith(pkg_prefix):
                _walk_instance("%s.%s" % (modname, name), val, found, seen, 0)
        # mutable default arguments of the module's functions and methods are shared between all calls
        funcs = []
        for name, val in sorted(vars(mod).items()):
            if isinstance(val, types.FunctionType) and val.__module__ == modname:
                funcs.append(("%s.%s" % (modname, name), val))
            elif isinstance(val, type) and val.__module__ == modname:
                for mname, mval in sorted(vars(val).items()):
                    if isinstance(mval, types.FunctionType):
                        funcs.append(("%s.%s.%s" % (modname, name, mname), mval))
        for fname, fn in funcs:
            for i, d in enumerate(fn.__defaults__ or ()):
                if isinstance(d, (list, dict)) and id(d) not in seen:
                    seen.add(id(d))
                    found.append(("%s.__defaults__[%d]" % (fname, i), ("default", fn, i), d))
    return found


def _walk_instance(path, obj, found, seen, depth):
    if id(obj) in seen or depth > 3:
        return
    seen.add(id(obj))
    for an, av in sorted(vars(obj).items()):
        if isinstance(av, (list, dict)):
            if id(av) in seen:
                continue
            seen.add(id(av))
            found.append(("%s.%s" % (path, an), ("attr", obj, an), av))
        elif hasattr(av, "__dict__") and not isinstance(av, (type, types.ModuleType, types.FunctionType)) \
                and type(av).__module__.startswith("a5"):
            _walk_instance("%s.%s" % (path, an), av, found, seen, depth + 1)




def instances(pkg_prefix="a5"):
    """module-level instances of classes defined in the package (singletons), with their dotted path."""
    out, seen = [], set()
    for modname, mod in sorted(sys.modules.items()):
        if mod is None or not (modname == pkg_prefix or modname.startswith(pkg_prefix + ".")):
            continue
        for name, val in sorted(vars(mod).items()):
            if name.startswith("__") or isinstance(val, (type, types.ModuleType, types.FunctionType)):
                continue
            if hasattr(val, "__dict__") and type(val).__module__.startswith(pkg_prefix) and id(val) not in seen:
                _collect("%s.%s" % (modname, name), val, out, seen, 0)
    return out


def _collect(path, obj, out, seen, depth):
    if id(obj) in seen or depth > 3:
        return
    seen.add(id(obj))
    out.append((path, obj))
    for an, av in sorted(vars(obj).items()):
        if hasattr(av, "__dict__") and not isinstance(av, (type, types.ModuleType, types.FunctionType)) \
                and type(av).__module__.startswith("a5"):
            _collect("%s.%s" % (path, an), av, out, seen, depth + 1)
