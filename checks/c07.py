"""C07 (partial) - the id hierarchy is spatially coherent.

Decided (lattice / face-plane level):
 (L) one-level drift lemma: with the flip state P before the last two levels, the parent's last digit p and the
     child's own digit c0 as FRESH symbols, the real _shift_digits / quaternary_to_kj / quaternary_to_flips /
     kj_to_ij and the real orientation post-transform of s_to_anchor give the finite set D of displacements
     anchor(child) - 2*anchor(parent) together with both cells' (k, flips) (solver AllSAT: the final unsat proves
     the set complete); the planar centre-distance ratio is evaluated exactly on D.
 (S) index reversal commutes with taking the parent (value entering _s_to_anchor for (s,h), shifted by one digit,
     equals the value entering it for (s>>2, h-1)) for every level 2..28 and orientation, all s.
 (V) validation of the lemma's structural premise on the real composition: for small levels the displacement set
     enumerated from the real s_to_anchor on ALL indices (symbolic s, merged mode) is contained in D.
 The same lemma for depths 2 and 3 gives the exact maxima R2, R3; beyond depth 3 the geometric series of the one-level
 drift bounds the rest: ratio(any depth) <= R3 + R1/4.
Not decided: the step from the face plane to the sphere (needs the projection's distortion)."""
import math
import z3
from symx import core as sx
from symx import floats as sf
from symx.merge import merged
from .common import Job
from . import c18

ORIENTATIONS = c18.ORIENTATIONS
YES, NO = -1, 1
R_LIMIT = {1: 0.66, 2: 0.93, 3: 1.08}       # certified planar centre-distance / sqrt(ancestor area) per depth
R1_LIMIT = R_LIMIT[1]
PLANAR_BOUND = round(R_LIMIT[3] + R_LIMIT[1] / 4, 3)      # depth 3 exact + geometric tail of the one-level drift
BOUNDS = {"(L)": "depths 1, 2, 3: flip state (4) x ancestor digit (4) x descendant digits (4^k) symbolic, 6 orientations, ancestor anchor offset symbolic "
                 "in [0, 2^26]^2, level symbolic in k+1..28",
          "(S)": "every level h in 2..28 (quick: 2,3,8,16,27,28), 6 orientations, all 4^h indices",
          "(V)": "levels h in {2,3,4} (thorough: 2..5; the h=6 enumeration came back unknown), all indices, 6 orientations",
          "certified planar bound": "centre(descendant) within %.2f * sqrt(planar area(ancestor)) at any depth" % PLANAR_BOUND}
OUTSIDE = ["the spherical conclusion (<= 1.5 sqrt(area) great-circle) additionally needs the projection's length distortion <= 1.5/%.2f = %.3f: not decided"
           % (PLANAR_BOUND, 1.5 / PLANAR_BOUND),
           "that the child's processing of its upper levels coincides with the parent's whole processing is argued from the loop structure of "
           "_s_to_anchor and validated by (V) on all indices of small levels only",
           "the 'for any point p' corollary (depends on C01); res -1/0/1 nesting (ids: C06)"]
STUBS = ["(L): _s_to_anchor replaced by a stub returning the symbolic local state so that only the real orientation post-transform runs around it",
         "(S): _s_to_anchor replaced by a capture stub", "(V): s_to_anchor helpers merged; int() shim"]
ASSUMPTIONS = ["planar ratio evaluated in floats on the enumerated integer displacements with the real BASIS / pentagon constants",
               "geometric tail: from depth j-1 to depth j the centre moves at most R1 * 2^-(j-1) ancestor widths"]


def _consts():
    from a5.core.hilbert import Anchor
    from a5.core.tiling import get_pentagon_vertices
    from a5.core.pentagon import BASIS, PENTAGON
    from a5.core.coordinate_transforms import face_to_ij
    delta = {}
    for k in range(4):
        for f in c18.FLIPS:
            delta[(k, f)] = face_to_ij(get_pentagon_vertices(0, 0, Anchor(k, (0.0, 0.0), f)).get_center())
    vs = PENTAGON.get_vertices()
    area = abs(sum(vs[i][0] * vs[(i + 1) % 5][1] - vs[(i + 1) % 5][0] * vs[i][1] for i in range(5))) / 2
    return BASIS, delta, area


def ratio(tup, consts, k=1):
    BASIS, delta, area = consts
    di, dj, fcx, fcy, fpx, fpy, kc, kp = tup
    dc = delta[(kc, (fcx, fcy))]
    dp = delta[(kp, (fpx, fpy))]
    vi = (di + dc[0]) / 2 ** k - dp[0]
    vj = (dj + dc[1]) / 2 ** k - dp[1]
    x = BASIS[0][0] * vi + BASIS[0][1] * vj
    y = BASIS[1][0] * vi + BASIS[1][1] * vj
    return math.hypot(x, y) / math.sqrt(area)


def _clip(subject, clipper):
    """Sutherland-Hodgman clipping of a polygon by a convex polygon (both counter-clockwise)."""
    out = list(subject)
    n = len(clipper)
    for i in range(n):
        a, b = clipper[i], clipper[(i + 1) % n]
        inp, out = out, []
        if not inp:
            break

        def inside(p):
            return (b[0] - a[0]) * (p[1] - a[1]) - (b[1] - a[1]) * (p[0] - a[0]) >= 0

        def inter(p, q):
            dx, dy = q[0] - p[0], q[1] - p[1]
            ex, ey = b[0] - a[0], b[1] - a[1]
            den = dx * ey - dy * ex
            t = ((a[0] - p[0]) * ey - (a[1] - p[1]) * ex) / den if den else 0.0
            return (p[0] + t * dx, p[1] + t * dy)
        for j in range(len(inp)):
            p, q = inp[j - 1], inp[j]
            if inside(q):
                if not inside(p):
                    out.append(inter(p, q))
                out.append(q)
            elif inside(p):
                out.append(inter(p, q))
    return out


def _area(vs):
    return sum(vs[i][0] * vs[(i + 1) % len(vs)][1] - vs[(i + 1) % len(vs)][0] * vs[i][1] for i in range(len(vs))) / 2 if len(vs) >= 3 else 0.0


def overlap(tup):
    """planar area the child's pentagon shares with its parent's, as a fraction of the child's area (depth 1): the real
    get_pentagon_vertices places both from the enumerated (k, flips) and the relative anchor displacement."""
    from a5.core.hilbert import Anchor
    from a5.core.tiling import get_pentagon_vertices
    di, dj, fcx, fcy, fpx, fpy, kc, kp = tup
    par = get_pentagon_vertices(0, 0, Anchor(kp, (0.0, 0.0), (fpx, fpy))).get_vertices()
    chi = get_pentagon_vertices(1, 0, Anchor(kc, (float(di), float(dj)), (fcx, fcy))).get_vertices()
    if _area(par) < 0:
        par = par[::-1]
    if _area(chi) < 0:
        chi = chi[::-1]
    inter = _clip(chi, par)
    return abs(_area(inter)) / abs(_area(chi))


MIN_OVERLAP = 0.02     # a child's pentagon shares at least 2% of its area with its parent's (measured minimum on the pinned tree: 6.5%)


def _iv(x):
    return x.i if isinstance(x, sf.SymFInt) else (int(x) if isinstance(x, float) else x)


def _sign(c, name):
    b = c.bool(name)
    return sx.ite(b, -1, 1)


# ---------------------------------------------------------------------------------- (L)
def h_local(c, o, k=1, level=None, pstate=None):
    """depth-k drift set from fresh local state, through the real helpers and the real post-transform.
    Local state: flip state P before the ancestor's last digit, that digit p (after the ancestor's own processing) and the
    descendant's k further digits; the loop skeleton of _s_to_anchor (shift pass top-down, then Horner pass) is
    replayed on these k+1 digits with the real _shift_digits / quaternary_to_flips / quaternary_to_kj / kj_to_ij."""
    H = c18.install_merged()
    sf.install_float_mode(c, "intbv")
    invert_j = o in ("wv", "vw")
    flip_ij = o in ("wu", "uw")
    pattern = H.PATTERN_FLIPPED if flip_ij else H.PATTERN
    P = [_sign(c, "Px"), _sign(c, "Py")]
    if pstate is not None:
        # the job covers one of the four flip states (the four jobs together cover the whole local state space)
        c.assume(sx.And(P[0] == (-1 if pstate & 1 else 1), P[1] == (-1 if pstate & 2 else 1)))
    p = c.int("p", 0, 3)
    cs = [c.int("c%d" % i, 0, 3) for i in range(k)]      # cs[0] least significant
    if k >= 2:
        # the local state space is finite (4 x 4 x 4^k): it is enumerated completely by forking (AllSAT over the outputs took
        # 0.7 s per element); the solver still quantifies over every ancestor offset and level
        P = [(-1 if bool(x == -1) else 1) for x in P]
        p = p.__index__()
        cs = [x.__index__() for x in cs]
    hh = c.int("h", k + 1, 28) if level is None else level
    Ou = c.int("Ou", 0, 2 ** 26)
    Ov = c.int("Ov", 0, 2 ** 26)
    # ancestor: its last digit p under flips P
    kp = H.quaternary_to_kj(p, tuple(P))
    nf = H.quaternary_to_flips(p)
    Pp = (P[0] * nf[0], P[1] * nf[1])
    par_kj = (2 * Ou + _iv(kp[0]), 2 * Ov + _iv(kp[1]))
    # descendant: shift pass over the k+1 local digits (the levels above are shared with the ancestor)
    digits = list(cs) + [p]
    fl = list(P)
    for i in range(k, 0, -1):
        H._shift_digits(digits, i, fl, invert_j, pattern)
        n = H.quaternary_to_flips(digits[i])
        fl[0] *= n[0]
        fl[1] *= n[1]
    # Horner pass
    fl = list(P)
    acc = [Ou, Ov]
    for i in range(k, -1, -1):
        kk = H.quaternary_to_kj(digits[i], tuple(fl))
        acc = [2 * acc[0] + _iv(kk[0]), 2 * acc[1] + _iv(kk[1])]
        n = H.quaternary_to_flips(digits[i])
        fl[0] *= n[0]
        fl[1] *= n[1]
    Pc = (fl[0], fl[1])
    par_ij = H.kj_to_ij((sf.SymFInt._wrap(par_kj[0]), sf.SymFInt._wrap(par_kj[1])))
    chi_ij = H.kj_to_ij((sf.SymFInt._wrap(acc[0]), sf.SymFInt._wrap(acc[1])))
    feed = []
    H._s_to_anchor = lambda s, r, inv, fl_: feed.pop(0)
    try:
        feed.append(H.Anchor(digits[0], chi_ij, Pc))
        child = H.s_to_anchor(0, hh, o)
        feed.append(H.Anchor(p, par_ij, Pp))
        parent = H.s_to_anchor(0, hh - k, o)
    finally:
        c18.restore()
    di = child.offset[0] - (2 ** k) * parent.offset[0]
    dj = child.offset[1] - (2 ** k) * parent.offset[1]
    vals = [_iv(di), _iv(dj), child.flips[0], child.flips[1], parent.flips[0], parent.flips[1], child.k, parent.k]
    tuples = c.enumerate_tuples(vals, limit=20000, label="depth-%d-displacement-set-enumerated" % k)
    consts = _consts()
    worst = 0.0
    lim = R_LIMIT[k]
    ob = c.stats.ob("planar-ratio(depth %d)<=%.2f" % (k, lim))
    ob2 = c.stats.ob("child-pentagon-overlaps-parent-pentagon") if k == 1 else None
    for tup, inputs in tuples:
        r = ratio(tup, consts, k)
        worst = max(worst, r)
        if k == 1:
            ov = overlap(tup)
            ob2["paths"] += 1
            if ov < MIN_OVERLAP:
                ob2["sat"] += 1
                if len(c.counterexamples) < 4:
                    c.counterexamples.append({"label": "child-pentagon-overlaps-parent-pentagon", "inputs": inputs,
                                              "info": {"candidate": True, "overlap": ov, "tuple": list(tup), "o": o}})
            else:
                ob2["trivial"] += 1
            c.__dict__["min_overlap"] = min(c.__dict__.get("min_overlap", 1.0), ov)
        ob["paths"] += 1
        if r > lim:
            ob["sat"] += 1
            if len(c.counterexamples) < 4:
                c.counterexamples.append({"label": "planar-ratio(depth %d)<=%.2f" % (k, lim), "inputs": inputs,
                                          "info": {"candidate": True, "ratio": r, "tuple": list(tup), "o": o}})
        else:
            ob["trivial"] += 1
    ex = c.__dict__.setdefault("extra_sets", set())
    ex.update(t for t, _ in tuples)
    prev = getattr(c, "extra", None) or {}
    c.extra = {"kind": "L", "o": o, "k": k, "worst": max(worst, prev.get("worst", 0.0)), "tuples": sorted(ex) if k == 1 else [],
               "min_overlap": c.__dict__.get("min_overlap")}


# ---------------------------------------------------------------------------------- (S)
def h_reversal(c, h, o):
    H = c18.restore()
    s = c.int("s", 0, 4 ** h - 1)
    cap = []

    def stub(v, r, inv, fl_):
        cap.append((v, r))
        return H.Anchor(0, (0.0, 0.0), (NO, NO))
    H._s_to_anchor = stub
    try:
        H.s_to_anchor(s, h, o)
        H.s_to_anchor(s >> 2, h - 1, o)
    finally:
        c18.restore()
    (vc, rc), (vp, rp) = cap
    c.prove(sx.And(rc == h, rp == h - 1), "levels-passed-through")
    c.prove((vc >> 2) == vp, "index-reversal-commutes-with-parent:(internal index of s)>>2==internal index of s>>2")
    c.prove(sx.And(vc >= 0, vc < 4 ** h), "internal-index-in-range")


# ---------------------------------------------------------------------------------- (V)
def h_validate(c, h, o, j):
    H = c18.install_merged()
    sf.install_float_mode(c, "intbv")
    s = c18._srange(c, h, o, j)
    child = H.s_to_anchor(s, h, o)
    parent = H.s_to_anchor(s >> 2, h - 1, o)
    di = child.offset[0] - 2 * parent.offset[0]
    dj = child.offset[1] - 2 * parent.offset[1]
    vals = [_iv(di), _iv(dj), child.flips[0], child.flips[1], parent.flips[0], parent.flips[1], child.k, parent.k]
    tuples = c.enumerate_tuples(vals, limit=3000, label="real-composition-displacement-set-enumerated")
    ex = c.__dict__.setdefault("extra_sets", set())
    ex.update(t for t, _ in tuples)
    c.extra = {"kind": "V", "o": o, "h": h, "tuples": sorted(ex), "witness": {str(list(t)): inp for t, inp in tuples}}


def h_nest(c):
    """(N) the five segments of a face nest between the non-Hilbert and the Hilbert resolutions: the quintant in which the real
    _get_pentagon draws the resolution-1 cell (face, segment) is the quintant in which it draws that cell's resolution-2/3
    descendants, and the segment _lonlat_to_estimate assigns at resolution 1 is the one it assigns at resolution 2 for the same
    point (face: forks over the real origins table; segment / quintant: symbolic 0..4)."""
    import a5.core.cell as cm
    import a5.core.origin as og
    f = c.int("face", 0, 11)
    origin = og.origins[f]
    seg = c.int("segment", 0, 4)
    cap = {}
    saved = {k: getattr(cm, k) for k in ("get_quintant_vertices", "get_pentagon_vertices", "s_to_anchor", "get_quintant_polar",
                                         "find_nearest_origin", "ij_to_s", "face_to_ij")}
    try:
        cm.get_quintant_vertices = lambda q: cap.__setitem__("q1", q) or "quintant-shape"
        cm.get_pentagon_vertices = lambda h, q, anchor: cap.__setitem__("q%d" % (h + 1), q) or "pentagon-shape"
        cm.s_to_anchor = lambda s_, h, o: cap.__setitem__("o%d" % (h + 1), o) or "anchor"
        for r in (1, 2, 3):
            cm._get_pentagon({"S": 0, "segment": seg, "origin": origin, "resolution": r})
        qe, oe = og.segment_to_quintant(seg, origin)
        for r in (2, 3):
            if "q%d" % r not in cap or "q1" not in cap:
                c.fail("segments-nest:_get_pentagon-reaches-the-tiling")
                return
            c.prove(cap["q1"] == cap["q%d" % r], "segments-nest:resolution-1-quintant==quintant-of-its-descendants")
            c.prove(cap["o%d" % r] == oe if isinstance(cap["o%d" % r], str) else False, "segments-nest:orientation-from-the-origin-table")
        c.prove(cap["q1"] == qe, "segments-nest:resolution-1-quintant==segment_to_quintant")
        # forward direction: the quintant found for a point is mapped to the same segment at resolutions 1 and 2
        qq = c.int("quintant", 0, 4).__index__()          # concrete per path (the rotation that follows is float code)
        cm.get_quintant_polar = lambda polar: qq
        cm.find_nearest_origin = lambda sph: origin
        cm.face_to_ij = lambda pt: (0.0, 0.0)
        cm.ij_to_s = lambda ij, h, o: cap.__setitem__("fo", o) or 0
        e0 = cm._lonlat_to_estimate((10.0, 20.0), 0)
        e1 = cm._lonlat_to_estimate((10.0, 20.0), 1)
        e2 = cm._lonlat_to_estimate((10.0, 20.0), 2)
        ge, oe2 = og.quintant_to_segment(qq, origin)
        c.prove(sx.And(e1["segment"] == e2["segment"], e1["segment"] == ge), "segments-nest:lonlat-segment-at-resolution-1==at-resolution-2")
        c.prove(e0["origin"] is origin and e1["origin"] is origin and e2["origin"] is origin, "segments-nest:same-face-at-resolutions-0-1-2")
        c.prove(cap.get("fo") == oe2, "segments-nest:curve-orientation-from-the-origin-table")
    finally:
        for k, v in saved.items():
            setattr(cm, k, v)


def h_bound(c):
    c.prove(R_LIMIT[3] + R_LIMIT[1] / 4 <= PLANAR_BOUND + 1e-12 and PLANAR_BOUND < 1.5,
            "tail:ratio(any depth)<=R3+R1/4=%.3f<1.5" % PLANAR_BOUND)
    c.prove(R_LIMIT[1] <= R_LIMIT[2] <= R_LIMIT[3], "limits-monotone")


def jobs(tier, seed):
    js = []
    for o in ORIENTATIONS:
        for k in (1, 2, 3):
            if k == 3 and tier == "quick" and o not in ("uv", "wv", "wu"):
                continue      # quick: depth 3 for one orientation of each class (plain / invert_j / flip_ij); thorough: all six
            if k == 3:
                for ps in range(4):
                    js.append(Job("L[%s,depth=3,P=%d]" % (o, ps), "h_local", {"o": o, "k": 3, "pstate": ps},
                                  {"query_timeout_ms": 600000, "max_paths": 20000}, weight=200))
                continue
            js.append(Job("L[%s,depth=%d]" % (o, k), "h_local", {"o": o, "k": k}, {"query_timeout_ms": 600000, "max_paths": 20000},
                          weight=10 * 4 ** k))
        for h in ([2, 3, 8, 16, 27, 28] if tier == "quick" else range(2, 29)):
            js.append(Job("S[h=%d,%s]" % (h, o), "h_reversal", {"h": h, "o": o}, {}, weight=1))
        for h in ([2, 3, 4] if tier == "quick" else [2, 3, 4, 5]):
            for j in range(0, h + 1):
                js.append(Job("V[h=%d,%s,j=%d]" % (h, o, j), "h_validate", {"h": h, "o": o, "j": j},
                              {"query_timeout_ms": 300000}, weight=2 ** h / 4))
    js.append(Job("bound", "h_bound", {}, {}))
    js.append(Job("N[segments-nest]", "h_nest", {}, {"max_paths": 5000}, weight=5))
    js.extend(selftests(seed))
    return js


def post_check(results):
    """(V) subset of (L): returns counterexample rows for displacement tuples of the real composition that the
    local lemma does not produce (structural premise violated)."""
    L, V, wit = {}, {}, {}
    for r in results:
        ex = r.get("extra")
        if not ex:
            continue
        if ex["kind"] == "L":
            if ex.get("k", 1) != 1:
                continue
            L.setdefault(ex["o"], set()).update(tuple(t) for t in ex["tuples"])
        else:
            V.setdefault(ex["o"], set()).update(tuple(t) for t in ex["tuples"])
            for k, v in ex.get("witness", {}).items():
                wit[(ex["o"], k)] = (v, ex["h"])
    out = []
    for o, vs in V.items():
        for t in sorted(vs - L.get(o, set())):
            w = wit.get((o, str(list(t))))
            out.append({"o": o, "tuple": list(t), "inputs": w[0] if w else {}, "h": w[1] if w else None})
    return out, {o: len(s) for o, s in L.items()}, {o: len(s) for o, s in V.items()}


def post_results(results):
    """synthetic job row: (V) must be contained in (L); every tuple of the real composition that the local lemma
    does not produce is a counterexample candidate (replayed on the real API)."""
    miss, nl, nv = post_check([r for r in results if not r.get("expect_cex")])
    ob = {"paths": sum(nv.values()), "unsat": 0, "sat": len(miss), "unknown": 0, "nontrivial": 0, "trivial": sum(nv.values()) - len(miss)}
    row = {"name": "V-subset-of-L", "func": "h_validate", "params": {}, "paths": 0, "aborted_paths": 0, "decisions": 0, "feas_queries": 0,
           "feas_time": 0.0, "queries": 0, "query_time": 0.0, "verdicts": {"unsat": 0, "sat": 0, "unknown": 0},
           "obligations": {"real-composition-displacements-are-lemma-displacements": ob}, "merged_calls": 0, "merged_paths": 0,
           "cex": [], "inconclusive": [], "n_inconclusive": 0, "samples": [], "functions": [], "wall": 0.0, "traced": False}
    for m in miss[:4]:
        row["cex"].append({"label": "real-composition-displacements-are-lemma-displacements", "inputs": m["inputs"],
                           "info": {"candidate": True, "o": m["o"], "tuple": m["tuple"]}})
        row["params"] = {"o": m["o"], "h": m["h"]}
    return [row]


def extra_coverage(tier, results):
    miss, nl, nv = post_check(results)
    worst = {}
    for r in results:
        ex = r.get("extra")
        if ex and ex["kind"] == "L":
            k = ex.get("k", 1)
            worst[k] = max(worst.get(k, 0.0), ex.get("worst", 0.0))
    bound = (worst.get(3, 0.0) + worst.get(1, 0.0) / 4) if 3 in worst else 2 * worst.get(1, 0.0)
    mins = [r["extra"]["min_overlap"] for r in results if r.get("extra") and r["extra"].get("min_overlap") is not None]
    return {"one_level_set_sizes_from_lemma": nl, "one_level_set_sizes_from_real_composition": nv,
            "real_composition_tuples_not_in_lemma_set": len(miss),
            "max_planar_ratio_by_depth": {str(k): round(v, 4) for k, v in sorted(worst.items())},
            "measured_planar_bound_any_depth(R3+R1/4)": round(bound, 4), "certified_limit": PLANAR_BOUND,
            "min_child_parent_pentagon_overlap": round(min(mins), 4) if mins else None}


_PRE = """
import sys, math
import a5
from a5.core.serialization import serialize, cell_to_parent
from a5.core.utils import A5Cell
from a5.core.origin import origins, segment_to_quintant
from a5.core.cell_info import cell_area
def bad(sig):
    print("REPRODUCED " + sig); sys.exit(1)
def gc(p, q):
    la1, lo1, la2, lo2 = map(math.radians, (p[1], p[0], q[1], q[0]))
    a = math.sin((la2-la1)/2)**2 + math.cos(la1)*math.cos(la2)*math.sin((lo2-lo1)/2)**2
    return 2*6371007.2*math.asin(min(1.0, math.sqrt(a)))
def check(o, hs, ss):
    for org in origins:
        for seg in range(5):
            if segment_to_quintant(seg, org)[1] != o: continue
            for h in hs:
                r = h + 1
                for s in ss(h):
                    d = serialize(A5Cell(origin=org, segment=seg, S=s, resolution=r))
                    for kk in range(1, min(r, 12) + 1):
                        a = cell_to_parent(d, r - kk)
                        if gc(a5.cell_to_lonlat(d), a5.cell_to_lonlat(a)) > 1.5 * math.sqrt(cell_area(r - kk)):
                            bad("descendant-centre-far-from-ancestor:depth=%d,res=%d,%s" % (kk, r, o))
"""


_OVERLAP_REPLAY = """
import sys
sys.path.insert(0, %r)
from checks.c07_geom import clip_area
from a5.core.hilbert import s_to_anchor
from a5.core.tiling import get_pentagon_vertices
def bad(sig):
    print("REPRODUCED " + sig); sys.exit(1)
o = %r
for h in (2, 3, 4, 5, 6):
    for s in range(4 ** h):
        c = get_pentagon_vertices(h, 0, s_to_anchor(s, h, o)).get_vertices()
        p = get_pentagon_vertices(h - 1, 0, s_to_anchor(s >> 2, h - 1, o)).get_vertices()
        if clip_area(c, p) < 0.02: bad("child-pentagon-disjoint-from-parent:level=%%d,%%s" %% (h, o))
print("ok")
"""


_NEST_REPLAY = _PRE + """
from a5.core.serialization import cell_to_children
for c1 in cell_to_children(0, 1):
    for d in cell_to_children(c1, 4):
        if gc(a5.cell_to_lonlat(d), a5.cell_to_lonlat(c1)) > 1.5 * math.sqrt(cell_area(1)):
            bad("descendant-centre-far-from-resolution-1-ancestor:face=%d" % a5.core.serialization.deserialize(c1)["origin"].id)
    p = a5.cell_to_lonlat(c1)
    if cell_to_parent(a5.lonlat_to_cell(p, 3), 1) != a5.lonlat_to_cell(p, 1):
        bad("resolution-1-cell-of-a-point-is-not-the-ancestor-of-its-resolution-3-cell")
for c0 in cell_to_children(0, 0):
    for d in cell_to_children(c0, 3):
        if gc(a5.cell_to_lonlat(d), a5.cell_to_lonlat(c0)) > 1.5 * math.sqrt(cell_area(0)):
            bad("descendant-centre-far-from-resolution-0-ancestor")
print("ok")
"""


def replay(cx):
    p, inp = cx["params"], cx["inputs"]
    o = p.get("o") or (cx.get("info") or {}).get("o")
    if cx["func"] == "h_nest":
        return {"script": _NEST_REPLAY, "description": "resolution 0/1 cells vs their descendants on all 12 faces x 5 segments", "candidate": True}
    if cx["label"] == "child-pentagon-overlaps-parent-pentagon":
        from .common import VERIF
        return {"script": _OVERLAP_REPLAY % (VERIF, o), "description": "child pentagon vs parent pentagon (orientation %s)" % o, "candidate": True}
    if cx["func"] == "h_reversal":
        script = _PRE + """
import random
from a5.core.hilbert import s_to_anchor
rnd = random.Random(3)
o, h, s = %r, %d, %d
check(o, [h], lambda hh: [s, s ^ 1, 4**hh - 1 - s] + [rnd.randrange(4**hh) for _ in range(40)])
print("ok")
""" % (o, p["h"], inp.get("s", 0))
        return {"script": script, "description": "index reversal vs parent", "candidate": True}
    script = _PRE + """
import random
rnd = random.Random(3)
o = %r
# all indices of levels 2..5 plus samples of deeper levels in the quintants of this orientation
check(o, [2, 3, 4, 5], lambda h: range(4**h))
check(o, [9, 16, 28], lambda h: [rnd.randrange(4**h) for _ in range(150)])
print("ok")
""" % o
    return {"script": script, "description": "descendant centres vs ancestor centre (orientation %s)" % o, "candidate": True}


def _patch_invert():
    import a5.core.hilbert as hh
    orig = c18._orig.get("_shift_digits") or hh._shift_digits
    src = '''
def _shift_digits(digits, i, flips, invert_j, pattern):
    if i <= 0:
        return
    parent_k = digits[i] if i < len(digits) else 0
    child_k = digits[i - 1]
    F = flips[0] + flips[1]
    needs_shift = True
    first = True
    if F == 0:
        needs_shift = parent_k in (1, 2)
        first = parent_k == 1
    else:
        needs_shift = parent_k < 2
        first = parent_k == 0
    if not needs_shift:
        return
    src = child_k if first else child_k + 4
    dst = pattern[src]
    digits[i - 1] = dst % 4
    digits[i] = (parent_k + 4 + (dst // 4) - (src // 4)) % 4
'''
    ns = {}
    exec(compile(src, hh.__file__, "exec"), hh.__dict__, ns)
    c18._save()
    old = c18._orig["_shift_digits"]
    c18._orig["_shift_digits"] = ns["_shift_digits"]
    hh._shift_digits = ns["_shift_digits"]

    def undo():
        c18._orig["_shift_digits"] = old
        hh._shift_digits = old
    return undo


def selftests(seed):
    return [Job("selftest-invert-j[L,wv]", "h_local", {"o": "wv", "k": 2}, {"patch": "_patch_invert", "expect_cex": True, "max_paths": 20000})]
