"""z3-free helper for replays: resolve symbolic argument descriptions of the API-level calls."""


def resolve_arg(a5, a):
    if isinstance(a, str) and ":" in a:
        kind, rest = a.split(":", 1)
        pt, r = rest.split("@")
        lon, lat = eval(pt)
        cell = a5.lonlat_to_cell((lon, lat), int(r))
        if kind == "cell":
            return cell
        if kind == "children":
            return a5.cell_to_children(a5.cell_to_parent(cell))
        if kind == "cells":
            return [cell, a5.cell_to_parent(cell, 1)]
    if isinstance(a, list) and len(a) == 2 and all(isinstance(x, float) for x in a):
        return tuple(a)
    return a
