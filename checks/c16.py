"""C16 - results do not depend on what other threads are doing.  The schedule is the symbolic
variable: one Boolean per preemption point (line events of the running call) and arbitrary
interfering writes to every shared numeric cell."""
import json
import os
from symx import core as sx
from symx import floats as sf
from symx import shared
from .common import Job, REPO, VERIF
from . import sharedsym
from .targets import unit_targets

BOUNDS = {"unit level": "every function of a5.math.vec3/vec2/quat, PentagonShape.contains_point/get_center and the coordinate transforms with ALL "
                        "inputs symbolic reals; SphericalPolygonShape (3 and 5 vertices) and PolyhedralProjection.forward/inverse on 4 (thorough 8) "
                        "concrete input sets (generic, near-coincident vertices, degenerate) because their input-dependent branching does not finish "
                        "symbolically; in both cases every preemption point (line granularity) x arbitrary interfering writes to every discovered "
                        "shared numeric cell is symbolic",
          "API level": "lonlat_to_cell, cell_to_lonlat, cell_to_boundary, compact, uncompact, cell_to_children/parent on a fixed list of concrete "
                       "arguments (all 12 faces, poles, antimeridian, r in {0,1,2,9,20,29}): interference windows are searched on the real run"}
OUTSIDE = ["preemption inside a single source line (bytecode granularity below a line event)",
           "module globals that are rebound (not containers) and attributes of non-singleton objects",
           "object-valued cache slots: an interfering thread can only store the key-determined value there (C17's obligation)"]
STUBS = ["libm as uninterpreted functions on symbolic reals (equal arguments -> equal results); floats as exact reals",
         "shared containers replaced by hooked list/dict subclasses (same content); sys.settrace line clock"]
ASSUMPTIONS = ["context bound: any number of preemptions, each letting other threads run to completion (their effect over-approximated by "
               "arbitrary writes to shared numeric cells)",
               "the API functions reach shared numeric state only through the unit-level functions (checked dynamically on the API inputs)"]


_MUTABLE = None


def mutable_names():
    """names of the shared containers / singleton attributes that some library call writes at run time, found by a
    concrete dry run of every unit target and API call under the hooks (tables that nobody writes after import are
    constants: they carry no residue and cannot be interfered with)."""
    global _MUTABLE
    if _MUTABLE is not None:
        return _MUTABLE
    import a5
    from . import replay_sched as rs
    from .targets import make_call
    hooked, undo = shared.hook_all(shared.discover())
    views, undo_inst = shared.hook_instances()
    clock = shared.Clock(REPO)
    names = set()
    calls = []
    for label, mn, qual in unit_targets():
        for sd in (1, 1001):
            try:
                calls.append(make_call(rs.concrete_inputs(sd), mn, qual)[0])
            except Exception:
                pass
    for name, args in API_CALLS:
        try:
            aa = [resolve_arg(a5, a) for a in args]
            calls.append(lambda name=name, aa=aa: getattr(a5, name)(*aa))
        except Exception:
            pass
    try:
        for call in calls:
            st = shared.begin(None, clock, "plain")
            clock.start()
            try:
                call()
            except Exception:
                pass
            finally:
                clock.stop()
            names.update(w[0] for w in st.writes)
    finally:
        shared.end()
        undo()
        undo_inst()
    _MUTABLE = names
    return names


def _run(call, clock, c, mode):
    st = shared.begin(c, clock, mode, mutable_names() if mode != "plain" else None)
    clock.start()
    try:
        try:
            r = ("ok", call())
        except (ZeroDivisionError, ValueError, IndexError, TypeError) as ex:
            r = ("raise", type(ex).__name__)
    finally:
        clock.stop()
    return r, st


def _provider(c, inputs):
    if inputs == "symbolic":
        return None
    from . import replay_sched as rs
    return rs.concrete_inputs(inputs)


def h_unit(c, label, mn, qual, inputs="symbolic"):
    sf.install_float_mode(c, "real")
    c.real_mul_uf = True
    prov = _provider(c, inputs)
    undo_math = sharedsym.install_uf_math()
    snap = shared.snapshot_state()
    found = shared.discover()
    hooked, undo = shared.hook_all(found)
    views, undo_inst = shared.hook_instances()
    for _, h in hooked:
        h._symx_entry = None
    for v in views:
        v._symx_entry = None
    clock = shared.Clock(REPO)
    try:
        mk = (lambda: sharedsym.make_call(c, mn, qual)) if prov is None else (lambda: sharedsym._make_call(prov, mn, qual))
        call1, args1 = mk()
        (k1, r1), st1 = _run(call1, clock, c, "interfere")
        out1 = [list(a) for a in args1 if isinstance(a, list)]
        call2, args2 = mk()
        (k2, r2), st2 = _run(call2, clock, c, "entry")
        out2 = [list(a) for a in args2 if isinstance(a, list)]
    finally:
        shared.end()
        undo()
        undo_inst()
        undo_math()
        shared.restore_state(snap)
    info = {"target": label, "windows": [list(w) for w in st1.windows[:6]], "events": len(clock.events),
            "shared_cells_written": sorted({w[0] for w in st1.writes})[:8], "candidate": True}
    if k1 != k2:
        c.fail("never-raises-because-of-interleaving", info=info)
        return
    if k1 == "raise":
        c.prove(r1 == r2, "same-exception-as-sequential", info=info)
        return
    c.prove(sharedsym.same((r1, out1), (r2, out2)), "result-independent-of-schedule", info=info)
    c.prove(len(st1.windows) == 0, "no-shared-numeric-cell-read-after-a-preemption-point", info=dict(info, candidate=True))


API_CALLS = [
    ("lonlat_to_cell", [(139.7, 35.6), 9]), ("lonlat_to_cell", [(0.0, 90.0), 20]), ("lonlat_to_cell", [(179.99, -12.3), 29]),
    ("lonlat_to_cell", [(-93.0, 0.0), 2]), ("lonlat_to_cell", [(45.0, -89.9), 9]), ("lonlat_to_cell", [(12.0, 55.0), 1]),
    ("lonlat_to_cell", [(-60.0, -30.0), 0]),
    ("cell_to_lonlat", ["cell:(139.7,35.6)@9"]), ("cell_to_lonlat", ["cell:(0,-90)@20"]), ("cell_to_lonlat", ["cell:(-170,10)@2"]),
    ("cell_to_boundary", ["cell:(179.99,-12.3)@9"]), ("cell_to_boundary", ["cell:(10,80)@1", {"segments": 3}]),
    ("cell_to_boundary", ["cell:(-40,20)@0", {"closed_ring": False}]), ("cell_to_boundary", ["cell:(100,-50)@29"]),
    ("compact", ["children:(20,20)@3"]), ("uncompact", ["cells:(20,20)@3", 5]),
    ("cell_to_children", ["cell:(20,20)@7", 9]), ("cell_to_parent", ["cell:(20,20)@7", 2]),
]
FACE_POINTS = [(0.0, 89.0), (-93.0, 27.0), (-21.0, 27.0), (51.0, 27.0), (123.0, 27.0), (-165.0, 27.0), (-57.0, -27.0),
               (15.0, -27.0), (87.0, -27.0), (159.0, -27.0), (-129.0, -27.0), (0.0, -89.0)]
for _p in FACE_POINTS:
    API_CALLS.append(("lonlat_to_cell", [_p, 9]))
    API_CALLS.append(("cell_to_boundary", ["cell:(%r,%r)@5" % _p]))


def resolve_arg(a5, a):
    if isinstance(a, str) and ":" in a:
        kind, rest = a.split(":", 1)
        pt, r = rest.split("@")
        lon, lat = eval(pt)
        cell = a5.lonlat_to_cell((lon, lat), int(r))
        if kind == "cell":
            return cell
        if kind == "children":
            return a5.cell_to_children(a5.cell_to_parent(cell))
        if kind == "cells":
            return [cell, a5.cell_to_parent(cell, 1)]
    if isinstance(a, list) and len(a) == 2 and all(isinstance(x, float) for x in a):
        return tuple(a)
    return a


def _cold_reset():
    """fresh projection singletons (cold caches) for the API-level harness."""
    import a5.core.cell as cm
    import a5.projections.dodecahedron as dd
    cm._dodecahedron = dd.DodecahedronProjection()


def _hot_fill():
    """every cache of the projection filled with as many distinct keys as ordinary use produces (all 240 resolution-2 cells)."""
    import a5
    for cid in a5.cell_to_children(0, 2):
        a5.cell_to_lonlat(cid)


def h_api(c, idx, cold=False, hot=False):
    """concrete API call on the real code with every shared container hooked: search for reads of a
    shared numeric cell that follow a preemption point after the call's own write (interference window)."""
    import a5
    name, args = API_CALLS[idx]
    args = [resolve_arg(a5, a) for a in args]
    if cold:
        _cold_reset()
    else:
        try:
            if hot:
                _cold_reset()
                cold = True                   # structural obligations only (as for the cold run); the fill runs under the hooks
            else:
                getattr(a5, name)(*args)      # warm the key-determined caches: their fill is covered by the cold job
        except Exception:
            pass
    sf.install_float_mode(c, "real")
    c.real_mul_uf = True
    undo_math = sharedsym.install_uf_math()
    snap = shared.snapshot_state()
    found = shared.discover()
    hooked, undo = shared.hook_all(found)
    views, undo_inst = shared.hook_instances()
    for _, h in hooked:
        h._symx_entry = None
    for v in views:
        v._symx_entry = None
    clock = shared.Clock(REPO)
    symbolic_ok = True
    call = (lambda: (_hot_fill(), getattr(a5, name)(*args))[1]) if hot else (lambda: getattr(a5, name)(*args))    # noqa: E731
    try:
        try:
            if cold:
                # cold caches: only the publication / insert-only obligations (the numeric counter of the CRS singleton is
                # touched on every cache fill and its havoc forks once per fill: 2^30 paths)
                raise sx.Unsupported("cold run is not explored with a symbolic schedule")
            # symbolic schedule: reads of shared numeric cells after a preemption point return ite(b, fresh, own)
            (k, r), st = _run(call, clock, c, "interfere")
        except sx.Unsupported:
            symbolic_ok = False
            shared.end()
            if cold:
                _cold_reset()
                undo()
                undo_inst()
                hooked, undo = shared.hook_all(shared.discover())
                views, undo_inst = shared.hook_instances()
            (k, r), st = _run(call, clock, c, "plain")
        postpub = st.post_publication_mutations()
        removals = list(st.removals)
        windows = list(st.windows)
        if symbolic_ok:
            (k2, r2), st2 = _run(call, clock, c, "entry")
    finally:
        shared.end()
        undo()
        undo_inst()
        undo_math()
        shared.restore_state(snap)
    info = {"api": name, "args": repr(args)[:200], "idx": idx, "windows": [list(w) for w in windows[:6]],
            "events": len(clock.events), "candidate": True, "symbolic_schedule": symbolic_ok, "hot": hot}
    if symbolic_ok:
        if k != k2:
            c.fail("api:never-raises-because-of-interleaving", info=info)
        else:
            c.prove(sharedsym.same(r, r2) if k == "ok" else r == r2, "api:result-independent-of-schedule", info=info)
    elif not cold:
        c.prove(len(windows) == 0, "api:no-interference-window-on-shared-numeric-state", info=info)
    c.prove(len(postpub) == 0, "api:objects-are-complete-before-they-are-published-in-shared-state",
            info=dict(info, postpub=[list(x) for x in postpub[:4]], cold=True))
    c.prove(len(removals) == 0, "api:shared-containers-are-insert-only(no removal/reordering at run time)",
            info=dict(info, removals=[list(x) for x in removals[:4]], cold=True))
    c.prove(k == "ok" or name in ("uncompact",), "api:call-completes", info=info)


def jobs(tier, seed):
    js = []
    o = {"logic": None, "max_paths": 600, "query_timeout_ms": 30000, "feas_timeout_ms": 1500, "unknown_is_feasible": True}
    for label, mn, qual in unit_targets():
        composite = label.startswith(("SphericalPolygonShape", "PolyhedralProjection", "PentagonShape.contains_point"))
        if not composite:
            js.append(Job("unit[%s]" % label, "h_unit", {"label": label, "mn": mn, "qual": qual}, dict(o), weight=1))
        else:
            # composite geometry: concrete input sets (generic, near-coincident, degenerate) x symbolic schedule;
            # their own branches are driven by the inputs, the vec3 helpers they call are covered with symbolic inputs
            for sd in ((1, 2, 1001, 2001) if tier == "quick" else (1, 2, 3, 4, 1001, 1002, 2001, 2002)):
                js.append(Job("unit[%s;inputs=%d]" % (label, sd), "h_unit", {"label": label, "mn": mn, "qual": qual, "inputs": sd},
                              dict(o), weight=3))
    js.extend(selftests(seed))
    n = len(API_CALLS) if tier != "quick" else len(API_CALLS)
    for i in range(n):
        js.append(Job("api[%d:%s]" % (i, API_CALLS[i][0]), "h_api", {"idx": i}, {"logic": None}, weight=2))
        if API_CALLS[i][0] in ("lonlat_to_cell", "cell_to_lonlat", "cell_to_boundary"):
            js.append(Job("api-cold[%d:%s]" % (i, API_CALLS[i][0]), "h_api", {"idx": i, "cold": True}, {"logic": None}, weight=2))
            if i % 4 == 0 or tier != "quick":
                js.append(Job("api-hot[%d:%s]" % (i, API_CALLS[i][0]), "h_api", {"idx": i, "hot": True}, {"logic": None}, weight=3))
    return js


def extra_coverage(tier, results):
    import a5  # noqa: F401
    from . import discover
    return {"shared_containers_hooked": [n for n, _, _ in discover.discover()],
            "singletons_with_attribute_hooks": [p for p, _ in discover.instances()],
            "run_time_mutable_state": sorted(mutable_names()),
            "why_non_trivial_is_zero_on_a_clean_tree": "no call reads a shared numeric cell after a preemption point, so the interfered and the "
            "sequential run build identical terms and every obligation is decided during symbolic execution; the seeded-fault self-test "
            "(same harness, a module-level temporary re-introduced in vec3.lerp) must and does produce a sat verdict in every run, and on the "
            "pre-fix tree (496f3b2) this check reported 48 replayed violations (vec3.tripleProduct/vectorDifference/quadrupleProduct/slerp, "
            "SphericalPolygonShape, lonlat_to_cell, cell_to_boundary, cell_to_lonlat)"}


def replay(cx):
    info = cx.get("info") or {}
    p = cx["params"]
    if cx["func"] == "h_unit":
        script = """
import sys, json
sys.path.insert(0, %r)
from checks import replay_sched as rs, targets
import a5
prefix = a5.__file__.rsplit("/a5/", 1)[0]
for seed in (1, 2, 3):
    def make():
        inp = rs.concrete_inputs(seed)
        return targets.make_call(inp, %r, %r)[0]
    k, n, seq, r = rs.sweep(make, %r, prefix)
    if k is not None:
        print("REPRODUCED schedule-dependent:%s (preempt at line event %%d of %%d: sequential %%r vs interleaved %%r)" %% (k, n, str(seq)[:80], str(r)[:80]))
        sys.exit(1)
print("ok")
""" % (VERIF, p["mn"], p["qual"], p["label"], p["label"])
        return {"script": script, "description": "schedule dependence of %s" % p["label"], "candidate": True}
    if cx["func"] == "h_api":
        name, args = API_CALLS[p["idx"]]
        script = """
import sys
sys.path.insert(0, %r)
from checks import replay_sched as rs
from checks.c16_api import resolve_arg
import a5
prefix = a5.__file__.rsplit("/a5/", 1)[0]
name, args = %r, %r
args = [resolve_arg(a5, a) for a in args]
def make():
    return lambda: getattr(a5, name)(*args)
k, n, seq, r = rs.sweep(make, name, prefix, max_events=1500)
if k is None and %r:
    k, n, seq, r = rs.sweep(make, name, prefix, max_events=1500, reset=rs.cold_reset, same_call_interferer=make)
if k is None and %r:
    k, n, seq, r = rs.sweep(make, name, prefix, max_events=1500, reset=rs.hot_reset)
if k is not None:
    print("REPRODUCED schedule-dependent:a5.%%s (preempt at line event %%d of %%d)" %% (name, k, n)); sys.exit(1)
print("ok")
""" % (VERIF, name, args, bool(info.get("cold")), bool(info.get("hot")))
        return {"script": script, "description": "schedule dependence of a5.%s" % name, "candidate": True}
    return None


def _patch_shared_scratch():
    """seeded fault: make vec3.lerp use a module-level temporary again."""
    import a5.math.vec3 as v
    orig = v.lerp
    src = """
_tmp_lerp = [0.0, 0.0, 0.0]
def lerp(out, a, b, t):
    _tmp_lerp[0] = b[0] - a[0]
    _tmp_lerp[1] = b[1] - a[1]
    _tmp_lerp[2] = b[2] - a[2]
    out[0] = a[0] + t * _tmp_lerp[0]
    out[1] = a[1] + t * _tmp_lerp[1]
    out[2] = a[2] + t * _tmp_lerp[2]
    return out
"""
    exec(compile(src, v.__file__, "exec"), v.__dict__)

    def undo():
        v.lerp = orig
        del v._tmp_lerp
    return undo


def selftests(seed):
    return [Job("selftest-shared-temp", "h_unit", {"label": "vec3.lerp", "mn": "a5.math.vec3", "qual": "lerp"},
                {"logic": None, "patch": "_patch_shared_scratch", "feas_timeout_ms": 1500, "unknown_is_feasible": True, "expect_cex": True})]
