"""C06 - parent/children form a consistent tree over ids.  Real cell_to_children /
cell_to_parent / get_res0_cells on symbolic cells (all S at once, symbolic face/segment via a
symbolic view of the real origins table)."""
import z3
from symx import core as sx
from .common import Job
from . import shapes

BOUNDS = {
    "quick": {"cell resolution r": "-1..29", "child resolution b": "r..min(r+1,29) plus jumps over the aperture changes (-1->1,2,3; 0->2,3; 1->3)",
              "parent resolution a": "{r-1, r-2, r-3, 1, 0, -1}", "S": "symbolic, whole range of the resolution",
              "face/segment": "symbolic 0..11 / 0..4"},
    "thorough": {"cell resolution r": "-1..29", "child resolution b": "r..min(r+3,29) (fan-out <= 3 levels, <= 960 ids per list)",
                 "parent resolution a": "every a in -1..r, composition over every a1<=a2<=r",
                 "S": "symbolic, whole range", "face/segment": "symbolic"},
}
OUTSIDE = ["fan-out of more than 3 levels in a single cell_to_children call (deeper descents follow by the composition obligation)",
           "child resolution 30 (serialize at 30 is the C05 known finding)"]
STUBS = ["a5.core.serialization.origins viewed through SymTable: indexing with a symbolic face returns the ite-merge of the real "
         "table's id/first_quintant fields (bounds check as in Python)"]
ASSUMPTIONS = ["validity predicate only (face 0..11, segment 0..4, 0<=S<4^(r-1))"]


def expected_children(r, b):
    n = 1
    for lvl in range(r, b):
        n *= 12 if lvl == -1 else 5 if lvl == 0 else 4
    return n


def h_children(c, r, b):
    s = shapes.install_symtables()
    cell, cid = shapes.symid(c, "c", r)
    try:
        K = s.cell_to_children(cid, b) if b is not None else s.cell_to_children(cid)
    except Exception as ex:
        c.fail("children-does-not-raise", info={"exc": "%s: %s" % (type(ex).__name__, ex)})
        return
    bb = r + 1 if b is None else b
    c.prove(len(K) == expected_children(r, bb), "len(children)==12/5/4-product")
    if len(K) > 1:
        c.prove(sx.SymBool(z3.Distinct(*[sx.iexpr(k) for k in K])), "children-distinct")
    ok = []
    for k in K:
        ok.append(s.get_resolution(k) == bb)
        ok.append(s.cell_to_parent(k, r) == cid)
    c.prove(sx.And(*ok), "children-have-resolution-b-and-parent-c")
    if r == bb - 1 and r >= -1:
        c.prove(sx.And(*[s.cell_to_parent(k) == cid for k in K]), "default-parent-is-one-level-up")
    # completeness: an arbitrary valid cell d at b whose parent at r is c is in the list
    d, did = shapes.symid(c, "d", bb)
    pd = s.cell_to_parent(did, r)
    inlist = sx.Or(*[did == k for k in K])
    c.prove(sx.Implies(pd == cid, inlist), "children-complete")
    # the decoded-field oracle agrees with cell_to_parent on (d, c)
    c.prove(sx.Iff(pd == cid, shapes.anc(cell, d)), "parent-matches-field-oracle")


def h_contiguous(c, r, b):
    """descendants of c (res >= 1) at b are a contiguous run of valid ids in numeric order."""
    s = shapes.install_symtables()
    cell, cid = shapes.symid(c, "c", r)
    e1, i1 = shapes.symid(c, "e1", b)
    e2, i2 = shapes.symid(c, "e2", b)
    d, did = shapes.symid(c, "d", b)
    pre = sx.And(s.cell_to_parent(i1, r) == cid, s.cell_to_parent(i2, r) == cid, i1 <= did, did <= i2)
    c.prove(sx.Implies(pre, s.cell_to_parent(did, r) == cid), "descendants-contiguous")


def h_compose(c, r, a2, a1):
    s = shapes.install_symtables()
    cell, cid = shapes.symid(c, "c", r)
    try:
        p2 = s.cell_to_parent(cid, a2)
        p21 = s.cell_to_parent(p2, a1)
        p1 = s.cell_to_parent(cid, a1)
    except Exception as ex:
        c.fail("parent-does-not-raise", info={"exc": "%s: %s" % (type(ex).__name__, ex)})
        return
    c.prove(p21 == p1, "parent-composes")
    c.prove(s.get_resolution(p1) == a1, "parent-has-resolution-a")
    if a2 == r:
        c.prove(p2 == cid, "parent-at-own-resolution-is-self")
    # uniqueness: any valid cell u at a1 that has c among its descendants (field oracle) is p1
    u, uid = shapes.symid(c, "u", a1)
    c.prove(sx.Implies(shapes.anc(u, cell), uid == p1), "parent-unique")
    c.prove(sx.Implies(uid == p1, shapes.anc(u, cell)), "parent-is-ancestor")


def h_raises(c, r, kind, t):
    s = shapes.install_symtables()
    cell, cid = shapes.symid(c, "c", r)
    try:
        if kind == "children":
            out = s.cell_to_children(cid, t)
        else:
            out = s.cell_to_parent(cid, t)
    except ValueError:
        c.prove(True, "out-of-order-request-raises")
        return
    except Exception as ex:
        c.fail("out-of-order-request-raises", info={"kind": kind, "t": t, "exc": repr(ex)})
        return
    c.fail("out-of-order-request-raises", info={"kind": kind, "t": t, "returned": True})


def h_res0(c):
    s = shapes.install_symtables()
    K = s.get_res0_cells()
    K2 = s.cell_to_children(0, 0)
    c.prove(len(K) == 12 and list(K) == list(K2) and len(set(K)) == 12
            and all(s.get_resolution(k) == 0 for k in K), "get_res0_cells==children(world,0)")
    # every valid res-0 cell is in the list
    d, did = shapes.symid(c, "d", 0)
    c.prove(sx.Or(*[did == k for k in K]), "res0-complete")


def jobs(tier, seed):
    js = []
    for r in range(-1, 30):
        if tier == "quick":
            bs = {r, min(r + 1, 29)}
            if r == -1:
                bs |= {1, 2, 3}
            if r == 0:
                bs |= {2, 3}
            if r == 1:
                bs |= {3}
            if r in (5, 26):
                bs |= {min(r + 3, 29)}
        else:
            bs = set(range(r, min(r + 3, 29) + 1))
        for b in sorted(bs):
            js.append(Job("children[r=%d,b=%d]" % (r, b), "h_children", {"r": r, "b": b},
                          weight=expected_children(r, b)))
            if r >= 1 and b > r:
                js.append(Job("contiguous[r=%d,b=%d]" % (r, b), "h_contiguous", {"r": r, "b": b}))
        if r < 29:
            js.append(Job("children[r=%d,default]" % r, "h_children", {"r": r, "b": None}, weight=12))
        if tier == "quick":
            As = sorted({a for a in (r, r - 1, r - 2, r - 3, 1, 0, -1) if -1 <= a <= r})
            trip = [(a2, a1) for a2 in As for a1 in As if a1 <= a2]
        else:
            trip = [(a2, a1) for a2 in range(-1, r + 1) for a1 in range(-1, a2 + 1)]
        for a2, a1 in trip:
            js.append(Job("compose[r=%d,%d,%d]" % (r, a2, a1), "h_compose", {"r": r, "a2": a2, "a1": a1}, weight=0.3))
        bad_children = [t for t in (r - 1, r - 3, -1, 31, 35) if t < r or t > 30]
        bad_parent = [t for t in (r + 1, r + 2, 29, 30, -2, -5) if t > r or t < -1]
        for t in sorted(set(bad_children)):
            js.append(Job("raises[children,r=%d,t=%d]" % (r, t), "h_raises", {"r": r, "kind": "children", "t": t}, weight=0.2))
        for t in sorted(set(bad_parent)):
            js.append(Job("raises[parent,r=%d,t=%d]" % (r, t), "h_raises", {"r": r, "kind": "parent", "t": t}, weight=0.2))
    js.append(Job("res0", "h_res0"))
    return js


_PRE = """
import sys
from a5.core.serialization import serialize, deserialize, get_resolution, cell_to_children, cell_to_parent, get_res0_cells
from a5.core.utils import A5Cell
from a5.core.origin import origins
def mk(f,g,S,r):
    if r == -1: return 0
    return serialize(A5Cell(origin=origins[f], segment=g if r>=1 else 0, S=S if r>=2 else 0, resolution=r))
def anc(a, z):
    ra, rz = get_resolution(a), get_resolution(z)
    if ra > rz: return False
    if ra == -1: return True
    da, dz = deserialize(a), deserialize(z)
    if da['origin'].id != dz['origin'].id: return False
    if ra >= 1 and da['segment'] != dz['segment']: return False
    if ra >= 2 and (dz['S'] >> (2*(rz-ra))) != da['S']: return False
    return True
def exp(r,b):
    n=1
    for l in range(r,b): n *= 12 if l==-1 else 5 if l==0 else 4
    return n
def bad(sig):
    print("REPRODUCED " + sig); sys.exit(1)
"""


def _cellargs(inp, prefix):
    return "%d,%d,%d" % (inp.get(prefix + ".face", 0), inp.get(prefix + ".segment", 0), inp.get(prefix + ".S", 0))


def replay(cx):
    lab, inp, p = cx["label"], cx["inputs"], cx["params"]
    r = p.get("r")
    if cx["func"] == "h_children":
        b = p["b"]
        bb = r + 1 if b is None else b
        script = _PRE + """
r, b = %d, %d
c = mk(%s, r); d = mk(%s, b)
try:
    K = cell_to_children(c%s)
except Exception as ex:
    bad("children-raises:r=%%d,b=%%d:%%s" %% (r, b, type(ex).__name__))
if len(K) != exp(r, b): bad("children-count:r=%%d,b=%%d" %% (r, b))
if len(set(K)) != len(K): bad("children-duplicate:r=%%d,b=%%d" %% (r, b))
for k in K:
    if get_resolution(k) != b: bad("child-resolution:r=%%d,b=%%d" %% (r, b))
    if cell_to_parent(k, r) != c: bad("child-parent-mismatch:r=%%d,b=%%d" %% (r, b))
    if b == r + 1 and cell_to_parent(k) != c: bad("default-parent-mismatch:r=%%d" %% r)
if cell_to_parent(d, r) == c and d not in K: bad("children-incomplete:r=%%d,b=%%d" %% (r, b))
if (cell_to_parent(d, r) == c) != anc(c, d): bad("parent-vs-fields:r=%%d,b=%%d" %% (r, b))
print("ok")
""" % (r, bb, _cellargs(inp, "c"), _cellargs(inp, "d"), "" if b is None else ", b")
        return {"script": script, "description": "children of a cell at r=%d to b=%d" % (r, bb)}
    if cx["func"] == "h_contiguous":
        script = _PRE + """
r, b = %d, %d
c = mk(%s, r); e1 = mk(%s, b); e2 = mk(%s, b); d = mk(%s, b)
if cell_to_parent(e1, r) == c and cell_to_parent(e2, r) == c and e1 <= d <= e2 and cell_to_parent(d, r) != c:
    bad("descendants-not-contiguous:r=%%d,b=%%d" %% (r, b))
print("ok")
""" % (r, p["b"], _cellargs(inp, "c"), _cellargs(inp, "e1"), _cellargs(inp, "e2"), _cellargs(inp, "d"))
        return {"script": script, "description": "contiguity"}
    if cx["func"] == "h_compose":
        script = _PRE + """
r, a2, a1 = %d, %d, %d
c = mk(%s, r); u = mk(%s, a1)
try:
    p2 = cell_to_parent(c, a2); p21 = cell_to_parent(p2, a1); p1 = cell_to_parent(c, a1)
except Exception as ex:
    bad("parent-raises:r=%%d,a2=%%d,a1=%%d:%%s" %% (r, a2, a1, type(ex).__name__))
if p21 != p1: bad("parent-does-not-compose:r=%%d,a2=%%d,a1=%%d" %% (r, a2, a1))
if get_resolution(p1) != a1: bad("parent-resolution:r=%%d,a1=%%d" %% (r, a1))
if a2 == r and p2 != c: bad("parent-self:r=%%d" %% r)
if anc(u, c) != (u == p1): bad("parent-not-unique-ancestor:r=%%d,a1=%%d" %% (r, a1))
print("ok")
""" % (r, p["a2"], p["a1"], _cellargs(inp, "c"), _cellargs(inp, "u"))
        return {"script": script, "description": "parent composition"}
    if cx["func"] == "h_raises":
        script = _PRE + """
r, t = %d, %d
c = mk(%s, r)
try:
    out = %s(c, t)
except ValueError:
    print("ok"); sys.exit(0)
except Exception as ex:
    bad("%s-wrong-exception:r=%%d,t=%%d:%%s" %% (r, t, type(ex).__name__))
bad("%s-out-of-order-returns:r=%%d,t=%%d" %% (r, t))
""" % (r, p["t"], _cellargs(inp, "c"), "cell_to_children" if p["kind"] == "children" else "cell_to_parent",
       p["kind"], p["kind"])
        return {"script": script, "description": "out-of-order request"}
    if cx["func"] == "h_res0":
        script = _PRE + """
K = get_res0_cells()
if len(K) != 12 or len(set(K)) != 12 or K != cell_to_children(0, 0) or any(get_resolution(k) != 0 for k in K) or mk(%s, 0) not in K:
    bad("res0-cells-wrong")
print("ok")
""" % _cellargs(inp, "d")
        return {"script": script, "description": "get_res0_cells"}
    return None


# ---- seeded faults ---------------------------------------------------------------------
def _patch_parent_shift():
    import a5.core.serialization as s
    orig = s.cell_to_parent

    def bad(index, parent_resolution=None):
        cell = s.deserialize(index)
        cur = cell["resolution"]
        new = parent_resolution if parent_resolution is not None else cur - 1
        if new >= 2 and cur - new == 2:
            return s.serialize(s.A5Cell(origin=cell["origin"], segment=cell["segment"],
                                        S=cell["S"] >> (cur - new), resolution=new)) if False else \
                s.serialize(s.A5Cell(origin=cell["origin"], segment=cell["segment"],
                                     S=(cell["S"] >> 4) ^ ((cell["S"] >> 1) & 1 & (cell["S"] >> 9)), resolution=new))
        return orig(index, parent_resolution)
    s.cell_to_parent = bad
    return lambda: setattr(s, "cell_to_parent", orig)


def selftests(seed):
    return [Job("selftest-parent-bit[r=8]", "h_compose", {"r": 8, "a2": 7, "a1": 6}, {"patch": "_patch_parent_shift"}),
            Job("selftest-children[r=6,b=8]", "h_children", {"r": 6, "b": 8}, {"patch": "_patch_parent_shift"})]
