"""C02 (partial) - a cell's centre maps back to the same cell.
Decided here: (a) the output-range clause of cell_to_lonlat for every cell, with the float geometry in front
of it abstracted by the range contracts of atan2/acos and sin/cos as contract stubs; (b) the discrete skeleton
segment <-> quintant/orientation for all 12 x 5 table entries (the index <-> lattice part is C18, the id codec C05).
Not decided: that the spherical round trip itself returns to the same cell (projection inverse/forward = C13, n/a)."""
import math
import z3
from symx import core as sx
from symx import floats as sf
from .common import Job, VERIF
from . import sharedsym

BOUNDS = {"range clause": "every value (theta, phi) that to_spherical can return (atan2 in [-pi, pi], acos in [0, pi]) -> every cell",
          "skeleton": "all 12 faces (fork over the real origins table) x symbolic segment / quintant 0..4",
          "real arithmetic slack": "1e-9 degrees on the latitude bound (float constants pi/2 and 180/pi are exact rationals here)"}
OUTSIDE = ["the spherical round trip id -> centre -> id itself (needs numeric values of the projection: C13, not applicable)",
           "strict containment of the centre in the boundary ring; the pole collapse at r >= 22 mentioned in the property (acos precision)"]
STUBS = ["DodecahedronProjection.inverse -> (theta, phi) with theta = atan2-range, phi = acos-range (range contracts of to_spherical)",
         "authalic: sin/cos of the symbolic colatitude complement -> symbols s, c with s^2+c^2=1, |c| <= pi/2 - |a| (cos a <= pi/2 - |a| on [-pi/2, pi/2]), "
         "sign(s) = sign(a)",
         "deserialize/_get_pentagon are executed on a concrete valid cell (they do not influence the range clause once inverse is stubbed)"]
ASSUMPTIONS = ["to_spherical's range contract (atan2 in [-pi,pi], acos in [0,pi]) holds for the value DodecahedronProjection.inverse returns",
               "real arithmetic with the float constants taken exactly; IEEE rounding of the 6 operations of to_lonlat is below the 1e-9 slack"]


def h_range(c, res, which=None):
    sf.install_float_mode(c, "real")
    import a5
    import a5.core.cell as cell_mod
    import a5.projections.authalic as au
    from .c15 import ShimMath
    theta = sf.real_input(c, "theta", -math.pi, math.pi)
    phi = sf.real_input(c, "phi", 0.0, math.pi)
    s = sf.real_input(c, "sin", -1, 1)
    co = sf.real_input(c, "cos", 0, 1)
    shim = ShimMath()
    old_math = au.math
    au.math = shim

    class StubProj:
        def __init__(self, real):
            self.real = real

        def inverse(self, face, origin_id):
            return (theta, phi)

        def __getattr__(self, n):
            return getattr(self.real, n)
    real_d = cell_mod._dodecahedron
    real_to_lonlat = cell_mod.to_lonlat
    ct = __import__("a5.core.coordinate_transforms", fromlist=["x"])
    orig_inverse = ct.authalic.inverse

    def inv(a):
        # register the angle that reaches authalic.inverse with its sin/cos symbols and contracts
        shim.register(a, s, co)
        c.assume(s * s + co * co == 1)
        absa = abs(a)
        c.assume(co <= sf.SymReal(sf.rval(math.pi / 2)) - absa + 1e-15)
        c.assume(sx.And(sx.Implies(a >= 0, s >= 0), sx.Implies(a <= 0, s <= 0)))
        return orig_inverse(a)
    ct.authalic.inverse = inv
    cell_mod._dodecahedron = StubProj(real_d)
    try:
        if which is None:
            cid = a5.lonlat_to_cell((10.0, 20.0), res) if res >= 0 else 0
        else:
            # resolutions 0 and 1 have 12 + 60 cells: every one of them is taken (the ids carry face and segment)
            cid = a5.cell_to_children(0, res)[which]
        cell_mod._dodecahedron = StubProj(real_d)
        lon, lat = a5.cell_to_lonlat(cid)
    finally:
        cell_mod._dodecahedron = real_d
        ct.authalic.inverse = orig_inverse
        au.math = old_math
    cand = {"candidate": True}
    c.prove(sx.And(lon >= -180, lon <= 180), "longitude-in-[-180,180]", info=cand)
    c.prove(sx.And(lat >= -90 - 1e-9, lat <= 90 + 1e-9), "latitude-in-[-90,90]", info=cand)


def h_skeleton(c):
    import a5.core.origin as og
    f = c.int("face", 0, 11)
    origin = og.origins[f]          # forks over the real table
    seg = c.int("segment", 0, 4)
    q, o = og.segment_to_quintant(seg, origin)
    seg2, o2 = og.quintant_to_segment(q, origin)
    c.prove(sx.And(seg2 == seg, o2 == o), "quintant_to_segment(segment_to_quintant(g))==g-with-the-same-orientation")
    c.prove(sx.And(q >= 0, q <= 4), "quintant-in-0..4")
    qq = c.int("quintant", 0, 4)
    s3, o3 = og.quintant_to_segment(qq, origin)
    q4, o4 = og.segment_to_quintant(s3, origin)
    c.prove(sx.And(q4 == qq, o4 == o3), "segment_to_quintant(quintant_to_segment(q))==q-with-the-same-orientation")
    c.prove(o3 in ("uv", "vu", "uw", "wu", "vw", "wv"), "orientation-is-one-of-the-six")


def h_ieee(seed=0):
    """concrete IEEE evaluation at the extremes that real arithmetic only bounds with slack."""
    import a5.core.coordinate_transforms as ct
    res = sx.Result()
    st = sx.Stats()
    ob = st.ob("ieee:to_lonlat-extremes")
    vals = [ct.to_lonlat((math.pi, 0.0)), ct.to_lonlat((-math.pi, math.pi)), ct.to_lonlat((0.0, math.pi / 2))]
    ob["paths"] = 1
    if not (vals[0][1] == 90.0 and vals[1][1] == -90.0 and abs(vals[2][1]) < 1e-12):
        raise RuntimeError("to_lonlat extremes: %r" % (vals,))
    ob["trivial"] = 1
    res.stats = st
    res.samples = [{"obligation": "ieee extremes", "claim": "to_lonlat(phi=0) lat == 90.0, phi=pi lat == -90.0", "path": []}]
    return res


def jobs(tier, seed):
    js = [Job("range[res=%d]" % r, "h_range", {"res": r}, {"logic": None, "query_timeout_ms": 300000}, weight=5)
          for r in ((0, 1, 5) if tier == "quick" else (0, 1, 2, 5, 9, 20, 29))]
    for res, n in ((0, 12), (1, 60)):
        for w in range(n):
            js.append(Job("range[res=%d,cell=%d]" % (res, w), "h_range", {"res": res, "which": w}, {"logic": None, "query_timeout_ms": 300000}, weight=1))
    js.append(Job("skeleton", "h_skeleton", {}, {}, weight=2))
    js.append(Job("ieee-extremes", "h_ieee", {}, {"direct": True}))
    js.extend(selftests(seed))
    return js


def replay(cx):
    script = """
import sys
import a5
def bad(sig):
    print("REPRODUCED " + sig); sys.exit(1)
if %r == "h_skeleton":
    from a5.core.origin import origins, segment_to_quintant, quintant_to_segment
    for o in origins:
        for g in range(5):
            q, ori = segment_to_quintant(g, o)
            if quintant_to_segment(q, o) != (g, ori): bad("segment-quintant-tables-not-inverse:face=%%d" %% o.id)
        for q in range(5):
            g, ori = quintant_to_segment(q, o)
            if segment_to_quintant(g, o) != (q, ori): bad("segment-quintant-tables-not-inverse:face=%%d" %% o.id)
    print("ok"); sys.exit(0)
for lon in range(-180, 181, 9):
    for lat in (-89.9, -60, -27, 0, 27, 60, 89.9):
        for res in (0, 1, 2, 5, 9, 15, 29):
            cid = a5.lonlat_to_cell((float(lon), float(lat)), res)
            lo, la = a5.cell_to_lonlat(cid)
            if not (-180 <= lo <= 180): bad("cell_to_lonlat-longitude-out-of-range")
            if not (-90 <= la <= 90): bad("cell_to_lonlat-latitude-out-of-range")
print("ok")
""" % cx["func"]
    return {"script": script, "description": "cell_to_lonlat output range", "candidate": cx["func"] == "h_range"}


def _patch_nowrap():
    import a5.core.cell as cm
    orig = cm.cell_to_lonlat
    src = '''
def cell_to_lonlat(cell_id):
    if cell_id == WORLD_CELL:
        return (0.0, 0.0)
    cell = deserialize(cell_id)
    pentagon = _get_pentagon(cell)
    point = _dodecahedron.inverse(pentagon.get_center(), cell["origin"].id)
    return to_lonlat(point)
'''
    exec(compile(src, cm.__file__, "exec"), cm.__dict__)
    import a5
    a5.cell_to_lonlat = cm.cell_to_lonlat

    def undo():
        cm.cell_to_lonlat = orig
        a5.cell_to_lonlat = orig
    return undo


def selftests(seed):
    return [Job("selftest-no-wrap", "h_range", {"res": 5}, {"logic": None, "patch": "_patch_nowrap", "expect_cex": True})]
