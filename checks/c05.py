"""C05 - cell ids are a faithful 64-bit code (serialize / deserialize / get_resolution /
get_num_cells), decided for all S per resolution by symbolic execution of the real code."""
from symx import core as sx
from .common import Job
from . import shapes

BOUNDS = {
    "resolutions": "0..30 (every value, one job each)",
    "face": "symbolic 0..11 (forks over the real origins table)",
    "segment": "symbolic 0..4",
    "S": "symbolic over the whole range [0, 4^(r-1)) of each resolution (2^56 values at r=29); "
         "for the no-silent-encoding obligation S in [4^(r-1), 2^70) (S >= 1 for r < 2), width 136",
    "working_width_bits": 72,
}
OUTSIDE = ["negative S, segment or face outside 0..4 / 0..11 (outside the documented domain)",
           "resolutions > 30 other than the raise check at 31..40"]
STUBS = []
ASSUMPTIONS = ["validity predicate only: face in 0..11, segment in 0..4, 0 <= S < 4^(r-1)",
               "uniqueness and encode(decode(id)) == id are consequences of the discharged left-inverse "
               "+ get_resolution obligations (documented in DESIGN.md C05), not separate queries"]


def h_roundtrip(c, r):
    f = c.int("face", 0, 11)
    g = c.int("segment", 0, 4)
    S = c.int("S", 0, max(0, 4 ** (r - 1) - 1)) if r >= 2 else 0
    ser = shapes.ser()
    shapes.int_shims(c)
    cell = shapes.mkcell(f, g, S, r)
    fid = cell["origin"].id
    try:
        i = ser.serialize(cell)
    except Exception as ex:
        c.fail("serialize-does-not-raise", info={"exc": "%s: %s" % (type(ex).__name__, ex), "r": r})
        return
    c.prove(sx.And(i >= 1, i < 2 ** 64), "id-in-[1,2^64)")
    try:
        rr = ser.get_resolution(i)
        d = ser.deserialize(i)
    except Exception as ex:
        c.fail("decode-does-not-raise", info={"exc": "%s: %s" % (type(ex).__name__, ex), "r": r})
        return
    c.prove(rr == r, "get_resolution(id)==r")
    same = sx.And(d["origin"].id == fid, d["S"] == S, d["resolution"] == r,
                  (d["segment"] == g) if r >= 1 else True)
    c.prove(same, "deserialize(serialize(cell))==cell")
    # second, independent cell with the same resolution: equal ids => equal cells (injectivity, direct)
    f2 = c.int("face2", 0, 11)
    g2 = c.int("segment2", 0, 4)
    S2 = c.int("S2", 0, max(0, 4 ** (r - 1) - 1)) if r >= 2 else 0
    cell2 = shapes.mkcell(f2, g2, S2, r)
    try:
        i2 = ser.serialize(cell2)
    except Exception:
        return      # the same obligation as above, reported there for (f, g, S)
    samecell = sx.And(cell2["origin"].id == fid, S2 == S, (g2 == g) if r >= 1 else True)
    c.prove(sx.Implies(i2 == i, samecell), "distinct-cells-distinct-ids")
    # a decoded cell stays what it was when further ids are decoded (no shared result object)
    try:
        d2 = ser.deserialize(i2)
    except Exception:
        return
    still = sx.And(d["origin"].id == fid, d["S"] == S, d["resolution"] == r, (d["segment"] == g) if r >= 1 else True)
    c.prove(sx.And(d is not d2, still), "decoded-cell-unaffected-by-later-decodes")


def h_cross_resolution(c, r1, r2):
    """ids of different resolutions never coincide (direct form)."""
    ser = shapes.ser()
    a = shapes.symcell(c, "a", r1)
    b = shapes.symcell(c, "b", r2)
    c.prove(ser.serialize(a) != ser.serialize(b), "ids-of-different-resolutions-differ")


def h_too_large(c, r):
    """Encoding never silently produces an id for a position that does not fit."""
    f = c.int("face", 0, 11)
    g = c.int("segment", 0, 4)
    lo = 4 ** (r - 1) if r >= 2 else 1
    S = c.int("S", lo, 2 ** 70)
    ser = shapes.ser()
    shapes.int_shims(c)
    cell = shapes.mkcell(f, g, S, r)
    try:
        i = ser.serialize(cell)
    except ValueError:
        c.prove(True, "oversized-S-raises")
        return
    except Exception as ex:
        c.fail("oversized-S-raises", info={"exc": repr(ex), "r": r, "kind": "wrong-exception"})
        return
    c.fail("oversized-S-raises", info={"r": r, "kind": "silent"})


def h_res_too_large(c):
    r = c.int("r", 31, 40)
    f = c.int("face", 0, 11)
    g = c.int("segment", 0, 4)
    ser = shapes.ser()
    cell = shapes.mkcell(f, g, 0, r)
    try:
        ser.serialize(cell)
    except ValueError:
        c.prove(True, "resolution>MAX-raises")
        return
    c.fail("resolution>MAX-raises", info={"kind": "silent"})


def h_count(c):
    """get_num_cells(r) == 12 (r=0) / 12*5*4^(r-1), r symbolic; the cells at r are the triples
    (f), (f,g), (f,g,S) of the validity predicate."""
    from a5.core import cell_info
    r = c.int("r", 0, 30)
    n = cell_info.get_num_cells(r)
    expected = sx.ite(r == 0, 12, 60 * (1 << (2 * sx.ite(r == 0, 0, r - 1))))
    c.prove(n == expected, "get_num_cells(r)==12*5*4^(r-1)")
    c.prove(sx.And(n >= 12, n < 2 ** 64), "count-fits-64-bits")


def h_enumerate(c, r):
    """the ids enumerated at resolution r (expanding the world cell in one call and level by level) are
    exactly get_num_cells(r) many, pairwise distinct, and contain every valid cell."""
    s = shapes.install_symtables()
    from a5.core import cell_info
    K = s.cell_to_children(0, r)
    c.prove(len(K) == cell_info.get_num_cells(r) and len(set(K)) == len(K), "enumerated-ids==get_num_cells(r)-distinct")
    step = [0]
    for lvl in range(0, r + 1):
        step = [k for p in step for k in s.cell_to_children(p, lvl)]
    c.prove(sorted(step) == sorted(K), "one-call-enumeration==level-by-level-enumeration")
    d, did = shapes.symid(c, "d", r)
    c.prove(sx.Or(*[did == k for k in K]), "every-valid-cell-is-enumerated")
    c.prove(sx.And(*[s.get_resolution(k) == r for k in K]), "enumerated-ids-have-resolution-r")


def conf_serialization(seed=0):
    from . import conformance
    return conformance.serialization(seed)


def jobs(tier, seed):
    js = []
    for r in range(0, 4 if tier == "quick" else 5):
        js.append(Job("enumerate[r=%d]" % r, "h_enumerate", {"r": r}, weight=3))
    for r in range(0, 31):
        js.append(Job("roundtrip[r=%d]" % r, "h_roundtrip", {"r": r}, weight=2))
        js.append(Job("too-large[r=%d]" % r, "h_too_large", {"r": r}, {"width": 136}))
    pairs = [(a, b) for a in range(0, 30) for b in range(a + 1, 30)]
    if tier == "quick":
        pairs = [(a, b) for a, b in pairs if b - a <= 2 or a <= 2 or b == 29]
    for a, b in pairs:
        js.append(Job("cross[%d,%d]" % (a, b), "h_cross_resolution", {"r1": a, "r2": b}, weight=0.5))
    js.append(Job("conformance[test-ids.json]", "conf_serialization", {}, {"direct": True}, weight=5))
    js.append(Job("res-too-large", "h_res_too_large"))
    js.append(Job("count", "h_count"))
    return js


def replay(cx):
    lab = cx["label"]
    inp = cx["inputs"]
    p = cx["params"]
    r = p.get("r", inp.get("r"))
    if lab == "decoded-cell-unaffected-by-later-decodes":
        script = _PRE + """
a = serialize(A5Cell(origin=origins[%d], segment=%d, S=%d, resolution=%d))
b = serialize(A5Cell(origin=origins[%d], segment=%d, S=%d, resolution=%d))
c1 = deserialize(a); snap = (c1["origin"].id, c1["segment"], c1["S"], c1["resolution"])
c2 = deserialize(b)
if c1 is c2 or (c1["origin"].id, c1["segment"], c1["S"], c1["resolution"]) != snap:
    print("REPRODUCED decoded-cell-changed-by-a-later-decode"); sys.exit(1)
print("ok")
""" % (inp["face"], inp["segment"], inp.get("S", 0), r, inp.get("face2", 0), inp.get("segment2", 0), inp.get("S2", 0), r)
        return {"script": script, "description": "decoded cells are independent objects"}
    if lab in ("serialize-does-not-raise", "decode-does-not-raise", "id-in-[1,2^64)", "no-unexpected-exception",
               "get_resolution(id)==r", "deserialize(serialize(cell))==cell",
               "distinct-cells-distinct-ids"):
        script = _PRE + """
f,g,S,r = %d,%d,%d,%d
f2,g2,S2 = %d,%d,%d
try:
    i = serialize(A5Cell(origin=origins[f], segment=g, S=S, resolution=r))
except Exception as ex:
    print("REPRODUCED serialize-raises:resolution=%%d:%%s:%%s" %% (r, type(ex).__name__, ex)); sys.exit(1)
if not (1 <= i < 2**64): print("REPRODUCED id-out-of-range:resolution=%%d" %% r); sys.exit(1)
try:
    rr = get_resolution(i); d = deserialize(i)
except Exception as ex:
    print("REPRODUCED decode-raises:resolution=%%d:%%s" %% (r, type(ex).__name__)); sys.exit(1)
if rr != r: print("REPRODUCED get_resolution-mismatch:resolution=%%d got=%%d id=%%x" %% (r, rr, i)); sys.exit(1)
if d["origin"].id != origins[f].id or d["S"] != S or d["resolution"] != r or (r >= 1 and d["segment"] != g):
    print("REPRODUCED roundtrip-mismatch:resolution=%%d id=%%x" %% (r, i)); sys.exit(1)
i2 = serialize(A5Cell(origin=origins[f2], segment=g2, S=S2, resolution=r))
if i2 == i and (f2 != f or S2 != S or (r >= 1 and g2 != g)):
    print("REPRODUCED id-collision:resolution=%%d id=%%x" %% (r, i)); sys.exit(1)
print("ok")
""" % (inp["face"], inp["segment"], inp.get("S", 0), r, inp.get("face2", 0), inp.get("segment2", 0), inp.get("S2", 0))
        return {"script": script, "description": "serialize/deserialize round trip at r=%s" % r}
    if lab == "ids-of-different-resolutions-differ":
        script = _PRE + """
a = serialize(A5Cell(origin=origins[%d], segment=%d, S=%d, resolution=%d))
b = serialize(A5Cell(origin=origins[%d], segment=%d, S=%d, resolution=%d))
if a == b: print("REPRODUCED cross-resolution-collision:%d,%d id=%%x" %% a); sys.exit(1)
print("ok")
""" % (inp["a.face"], inp.get("a.segment", 0), inp.get("a.S", 0), p["r1"],
       inp["b.face"], inp.get("b.segment", 0), inp.get("b.S", 0), p["r2"], p["r1"], p["r2"])
        return {"script": script, "description": "ids of two resolutions collide"}
    if lab == "oversized-S-raises":
        script = _PRE + """
f,g,S,r = %d,%d,%d,%d
try:
    i = serialize(A5Cell(origin=origins[f], segment=g, S=S, resolution=r))
except ValueError:
    print("ok raises"); sys.exit(0)
except Exception as ex:
    print("REPRODUCED oversized-S-wrong-exception:resolution=%%d:%%s" %% (r, type(ex).__name__)); sys.exit(1)
print("REPRODUCED oversized-S-silently-encoded:resolution=%%d" %% r); sys.exit(1)
""" % (inp["face"], inp["segment"], inp["S"], r)
        return {"script": script, "description": "S too large for r=%s is encoded silently" % r}
    if lab == "resolution>MAX-raises":
        script = _PRE + """
try:
    serialize(A5Cell(origin=origins[%d], segment=%d, S=0, resolution=%d))
except ValueError:
    print("ok"); sys.exit(0)
print("REPRODUCED resolution-above-max-encoded"); sys.exit(1)
""" % (inp["face"], inp["segment"], inp["r"])
        return {"script": script, "description": "resolution above MAX encoded"}
    if cx["func"] == "h_enumerate":
        script = _PRE + """
from a5.core.serialization import cell_to_children
from a5.core.cell_info import get_num_cells
r = %d
K = cell_to_children(0, r)
if len(K) != get_num_cells(r) or len(set(K)) != len(K): print("REPRODUCED enumeration-count:r=%%d got=%%d" %% (r, len(K))); sys.exit(1)
step = [0]
for lvl in range(0, r + 1): step = [k for p in step for k in cell_to_children(p, lvl)]
if sorted(step) != sorted(K): print("REPRODUCED enumeration-differs-from-stepwise:r=%%d" %% r); sys.exit(1)
d = serialize(A5Cell(origin=origins[%d], segment=%d, S=%d, resolution=r))
if d not in K or any(get_resolution(k) != r for k in K): print("REPRODUCED enumeration-incomplete:r=%%d" %% r); sys.exit(1)
print("ok")
""" % (p["r"], inp.get("d.face", 0), inp.get("d.segment", 0) if p["r"] >= 1 else 0, inp.get("d.S", 0) if p["r"] >= 2 else 0)
        return {"script": script, "description": "enumeration of ids at r=%d" % p["r"]}
    if lab.startswith("get_num_cells") or lab == "count-fits-64-bits":
        script = _PRE + """
from a5.core.cell_info import get_num_cells
r = %d
exp = 12 if r == 0 else 60 * 4 ** (r - 1)
if get_num_cells(r) != exp or not (12 <= get_num_cells(r) < 2**64):
    print("REPRODUCED get_num_cells-wrong:r=%%d" %% r); sys.exit(1)
print("ok")
""" % inp["r"]
        return {"script": script, "description": "get_num_cells"}
    return None


_PRE = """
import sys
from a5.core.serialization import serialize, deserialize, get_resolution
from a5.core.utils import A5Cell
from a5.core.origin import origins
"""


# ---- seeded-fault self-tests -----------------------------------------------------------
def _patch_marker():
    import a5.core.serialization as s
    old = s.HILBERT_START_BIT
    orig = s.serialize

    def bad(cell):
        i = orig(cell)
        r = cell["resolution"]
        if r >= 2:
            # marker one bit too high: collides with the lowest S bit
            i = (i & ~(1 << (58 - (2 * (r - 1) + 1)))) | (1 << (58 - 2 * (r - 1)))
        return i
    s.serialize = bad
    return lambda: setattr(s, "serialize", orig)


def _patch_bound():
    import a5.core.serialization as s
    orig = s.serialize

    def bad(cell):
        if cell["resolution"] >= 2 and cell["S"] == (1 << (2 * (cell["resolution"] - 1))):
            cell = dict(cell, S=0)
        return orig(cell)
    s.serialize = bad
    return lambda: setattr(s, "serialize", orig)


def selftests(seed):
    return [Job("selftest-marker[r=7]", "h_roundtrip", {"r": 7}, {"patch": "_patch_marker"}),
            Job("selftest-bound[r=5]", "h_too_large", {"r": 5}, {"width": 136, "patch": "_patch_bound"})]
