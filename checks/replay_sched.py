"""Deterministic single-threaded scheduler used to replay C16/C17 findings on the real code under the
repository's own interpreter: call A runs under sys.settrace; at line event k (frames of the a5
package = the preemption points) an interfering library call B runs to completion, then A resumes.
No symx/z3 imports."""
import math
import random
import sys
import os

REPO = os.environ.get("A5_REPO_REPLAY") or os.getcwd()


def _eq(a, b):
    if isinstance(a, float) and isinstance(b, float):
        return a == b or (a != a and b != b)
    if isinstance(a, (list, tuple)) and isinstance(b, (list, tuple)):
        return len(a) == len(b) and all(_eq(x, y) for x, y in zip(a, b))
    return a == b


def snapshot(v):
    if isinstance(v, (list, tuple)):
        return [snapshot(x) for x in v]
    return v


class Sched:
    def __init__(self, k, interferer, prefix):
        self.k, self.interferer, self.prefix = k, interferer, prefix
        self.t = 0
        self.fired = False

    def _local(self, frame, event, arg):
        if event == "line":
            self.t += 1
            if self.t == self.k and not self.fired:
                self.fired = True
                sys.settrace(None)
                try:
                    self.interferer()
                finally:
                    sys.settrace(self._global)
        return self._local

    def _global(self, frame, event, arg):
        if frame.f_code.co_filename.startswith(self.prefix):
            return self._local
        return None


def run(fn, k, interferer, prefix):
    s = Sched(k, interferer, prefix)
    sys.settrace(s._global)
    try:
        try:
            r = ("ok", snapshot(fn()))
        except Exception as ex:
            r = ("raise", type(ex).__name__)
    finally:
        sys.settrace(None)
    return r, s.t


def default_interferer():
    import a5
    from a5.math import vec3
    from a5.geometry.spherical_polygon import SphericalPolygonShape
    rnd = random.Random(99)

    def uv():
        v = [rnd.gauss(0, 1) for _ in range(3)]
        n = math.sqrt(sum(x * x for x in v))
        return tuple(x / n for x in v)

    def B():
        a, b, c, d = uv(), uv(), uv(), uv()
        vec3.vectorDifference(a, b)
        vec3.tripleProduct(a, b, c)
        vec3.quadrupleProduct([0.0, 0.0, 0.0], a, b, c, d)
        vec3.slerp([0.0, 0.0, 0.0], a, b, 0.3)
        SphericalPolygonShape([a, b, c, d]).get_area()
        cell = a5.lonlat_to_cell((rnd.uniform(-170, 170), rnd.uniform(-80, 80)), rnd.randint(0, 12))
        a5.cell_to_boundary(cell)
        a5.cell_to_lonlat(cell)
    return B


def cold_reset():
    """fresh projection singletons: every trial starts with cold caches."""
    import a5.core.cell as cm
    import a5.projections.dodecahedron as dd
    cm._dodecahedron = dd.DodecahedronProjection()


def hot_reset():
    """fresh singletons, then every cache filled with as many distinct keys as ordinary use produces."""
    import a5
    cold_reset()
    for cid in a5.cell_to_children(0, 2):
        a5.cell_to_lonlat(cid)


def sweep(make_fn, label, prefix, max_events=4000, reset=None, same_call_interferer=None):
    """run A sequentially, then once per preemption point with B interleaved there; returns the first
    event index at which the result differs (or None).  With `reset`, every trial starts from cold caches;
    with `same_call_interferer`, B is the same call as A (two threads asking for the same thing)."""
    B = default_interferer() if same_call_interferer is None else (lambda: same_call_interferer()())
    if reset:
        reset()
    seq, n = run(make_fn(), 0, B, prefix)
    step = 1 if n <= max_events else n // max_events + 1
    for k in range(1, n + 1, step):
        if reset:
            reset()
        r, _ = run(make_fn(), k, B, prefix)
        if not _eq(r, seq):
            return k, n, seq, r
    return None, n, seq, None


def concrete_inputs(seed):
    rnd = random.Random(seed)
    cache = {}

    base = [rnd.gauss(0, 1) for _ in range(3)]
    bn = math.sqrt(sum(x * x for x in base))
    base = [x / bn for x in base]

    def inp(name, n):
        if (name, n) not in cache:
            if n == 3 and 1000 <= seed < 2000:
                # near-coincident unit vectors (small-angle branches)
                v = [b + 1e-9 * rnd.gauss(0, 1) for b in base]
                nn = math.sqrt(sum(x * x for x in v))
                cache[(name, n)] = [x / nn for x in v]
            elif n == 3 and seed >= 2000:
                # degenerate: a zero vector now and then
                v = [0.0, 0.0, 0.0] if rnd.random() < 0.3 else [rnd.gauss(0, 1) for _ in range(3)]
                cache[(name, n)] = v
            elif n == 3:
                v = [rnd.gauss(0, 1) for _ in range(3)]
                nn = math.sqrt(sum(x * x for x in v))
                cache[(name, n)] = [x / nn for x in v]
            elif n == 1:
                cache[(name, n)] = [rnd.uniform(0.05, 0.95)]
            else:
                cache[(name, n)] = [rnd.uniform(-1, 1) for _ in range(n)]
        return cache[(name, n)]
    return inp
