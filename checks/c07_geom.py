"""z3-free planar polygon helpers for the C07 replay."""


def _area(vs):
    return sum(vs[i][0] * vs[(i + 1) % len(vs)][1] - vs[(i + 1) % len(vs)][0] * vs[i][1] for i in range(len(vs))) / 2 if len(vs) >= 3 else 0.0


def _clip(subject, clipper):
    out = list(subject)
    n = len(clipper)
    for i in range(n):
        a, b = clipper[i], clipper[(i + 1) % n]
        inp, out = out, []
        if not inp:
            break

        def inside(p):
            return (b[0] - a[0]) * (p[1] - a[1]) - (b[1] - a[1]) * (p[0] - a[0]) >= 0

        def inter(p, q):
            dx, dy = q[0] - p[0], q[1] - p[1]
            ex, ey = b[0] - a[0], b[1] - a[1]
            den = dx * ey - dy * ex
            t = ((a[0] - p[0]) * ey - (a[1] - p[1]) * ex) / den if den else 0.0
            return (p[0] + t * dx, p[1] + t * dy)
        for j in range(len(inp)):
            p, q = inp[j - 1], inp[j]
            if inside(q):
                if not inside(p):
                    out.append(inter(p, q))
                out.append(q)
            elif inside(p):
                out.append(inter(p, q))
    return out


def clip_area(child, parent):
    """fraction of the child's area inside the (convex) parent polygon."""
    child, parent = list(child), list(parent)
    if _area(parent) < 0:
        parent = parent[::-1]
    if _area(child) < 0:
        child = child[::-1]
    return abs(_area(_clip(child, parent))) / abs(_area(child))
