"""Symbolic cells, symbolic lookup tables and the decoded-field oracle shared by the checks."""
import importlib
from symx import core as sx
from symx.merge import merge_values
import z3


def ser():
    return importlib.import_module("a5.core.serialization")


def origins():
    return importlib.import_module("a5.core.origin").origins


def A5Cell(**kw):
    return importlib.import_module("a5.core.utils").A5Cell(**kw)


class Opaque:
    """Placeholder for table fields that cannot be merged; any use is Unsupported."""
    def __init__(self, what):
        object.__setattr__(self, "_what", what)

    def _no(self, *a, **k):
        raise sx.Unsupported("use of unmerged table field %s under a symbolic index" % self._what)

    __getattr__ = __getitem__ = __iter__ = __len__ = __add__ = __mul__ = __eq__ = __call__ = _no
    __hash__ = None


class SymTable(list):
    """A list whose __getitem__ accepts a SymInt index: bounds check forks (IndexError as in
    Python), the element is the ite-merge of the entries (NamedTuple entries field-wise)."""

    def __getitem__(self, i):
        if not isinstance(i, sx.SymInt):
            return list.__getitem__(self, i)
        n = len(self)
        if i.lo < 0:
            if bool(i < 0):
                raise sx.Unsupported("negative symbolic index")
            i = sx.refine(i, 0, i.hi)
        if i.hi >= n:
            if bool(i >= n):
                raise IndexError("list index out of range")
            i = sx.refine(i, i.lo, n - 1)
        if isinstance(i, int):
            return list.__getitem__(self, i)
        idxs = list(range(i.lo, i.hi + 1))
        entries = [list.__getitem__(self, k) for k in idxs]
        conds = [i.e == sx.bv(k) for k in idxs]
        e0 = entries[0]
        if hasattr(e0, "_fields"):
            vals = {}
            for fld in e0._fields:
                try:
                    vals[fld] = merge_values([(cd, getattr(en, fld)) for cd, en in zip(conds, entries)])
                except sx.Unsupported:
                    vals[fld] = Opaque(fld)
            return type(e0)(**vals)
        return merge_values(list(zip(conds, entries)))


_installed = {}


def install_symtables():
    """Replace serialization.origins by a SymTable built from the real table (idempotent); shim int()
    in the integer-kernel modules; floats (if a refactoring introduces them) are bit-precise IEEE."""
    from symx import floats as sf
    s = ser()
    if not isinstance(s.origins, SymTable):
        _installed["origins"] = s.origins
        s.origins = SymTable(s.origins)
    from symx import shims
    for modname in ("a5.core.serialization", "a5.core.compact", "a5.core.cell_info"):
        shims.install_int_shims(importlib.import_module(modname))
    c = sx._CTX
    if c is not None and getattr(c, "float_mode", None) is None:
        sf.install_float_mode(c, "fp")
    return s


def mkcell(f, g, S, r):
    """Cell through the real constructor and origins table (origins[f] forks if f symbolic and
    no SymTable is installed)."""
    s = ser()
    return A5Cell(origin=s.origins[f], segment=g, S=S, resolution=r)


def symcell(c, prefix, r):
    f = c.int(prefix + ".face", 0, 11)
    g = c.int(prefix + ".segment", 0, 4) if r >= 1 else 0
    S = c.int(prefix + ".S", 0, 4 ** (r - 1) - 1) if r >= 2 else 0
    return mkcell(f, g, S, r)


def symid(c, prefix, r):
    """(cell, id) with id = real serialize(cell); world cell for r == -1."""
    s = ser()
    if r == -1:
        cell = A5Cell(origin=s.origins[0], segment=0, S=0, resolution=-1)
        return cell, s.serialize(cell)
    cell = symcell(c, prefix, r)
    return cell, s.serialize(cell)


# ---- decoded-field oracle (independent of is_first_child / get_stride / cell_to_parent) ----
def fields(cell):
    """(face, segment, S, r) of a cell dict."""
    return cell["origin"].id, cell["segment"], cell["S"], cell["resolution"]


def anc(a, z):
    """a is an ancestor-or-self of z, on decoded fields."""
    fa, ga, Sa, ra = fields(a)
    fz, gz, Sz, rz = fields(z)
    if ra > rz:
        return False
    if ra == -1:
        return True
    conds = [fa == fz]
    if ra >= 1:
        conds.append(ga == gz)
    if ra >= 2:
        conds.append((Sz >> (2 * (rz - ra))) == Sa)
    return sx.And(*conds)


def same_cell(a, b):
    fa, ga, Sa, ra = fields(a)
    fb, gb, Sb, rb = fields(b)
    if ra != rb:
        return False
    if ra == -1:
        return True
    conds = [fa == fb]
    if ra >= 1:
        conds.append(ga == gb)
    if ra >= 2:
        conds.append(Sa == Sb)
    return sx.And(*conds)


def int_shims(c):
    """int() shim + bit-precise float mode without the symbolic origins view (C05 forks over faces)."""
    from symx import floats as sf
    from symx import shims
    for modname in ("a5.core.serialization", "a5.core.compact", "a5.core.cell_info"):
        shims.install_int_shims(importlib.import_module(modname))
    if getattr(c, "float_mode", None) is None:
        sf.install_float_mode(c, "fp")
