"""Shared harness for C08 (coverage) and C09 (canonical output) of compact()."""
import random
import zlib
import z3
from symx import core as sx
from . import shapes
from .c06 import expected_children


def symset(it=()):
    """`set` as seen by a5.core.compact: concrete ints are lifted so that every element hashes
    alike and equality is decided symbolically (sound mixing of concrete and symbolic ids)."""
    items = list(it)
    if any(isinstance(x, sx.SymInt) for x in items):
        items = [sx.lift(x) if isinstance(x, int) else x for x in items]
    return set(items)


def install():
    s = shapes.install_symtables()
    import a5.core.compact as cm
    cm.set = symset
    return s, cm


def decode(s, y):
    """fields of an output id through the real get_resolution/deserialize."""
    return s.deserialize(y)


def group_complete(y, Ys):
    f, g, S, r = shapes.fields(y)
    if r == -1:
        return False

    def present(pred):
        alts = []
        for o in Ys:
            fo, go, So, ro = shapes.fields(o)
            if ro != r:
                continue
            alts.append(pred(fo, go, So))
        return sx.Or(*alts)
    if r == 0:
        return sx.And(*[present(lambda fo, go, So, k=k: fo == k) for k in range(12)])
    if r == 1:
        return sx.And(*[present(lambda fo, go, So, k=k: sx.And(fo == f, go == k)) for k in range(5)])
    base = (S >> 2) << 2
    return sx.And(*[present(lambda fo, go, So, k=k: sx.And(fo == f, go == g, So == base + k)) for k in range(4)])


def build_input(c, s, shape, rnd):
    """Returns (ids list, coverage-of-input predicate builder, input cell dicts (free), group parents)."""
    free_cells, free_ids = [], []
    for n, r in enumerate(shape.get("free", [])):
        cell, cid = shapes.symid(c, "x%d" % n, r)
        free_cells.append(cell)
        free_ids.append(cid)
    parents, group_ids = [], []
    drop = shape.get("drop")
    for n, (rp, lv) in enumerate(shape.get("groups", [])):
        P, pid = shapes.symid(c, "P%d" % n, rp)
        kids = s.cell_to_children(pid, rp + lv)
        if drop is not None and n == 0:
            # 'holey' group: one child is left out (the region is then the remaining children)
            kept = [k for i, k in enumerate(kids) if i != drop % len(kids)]
            for k in kept:
                parents.append(s.deserialize(k))
            group_ids.extend(kept)
        else:
            parents.append(P)
            group_ids.extend(kids)
    # cascade: Q's children, one of them given as ITS complete children (must compact to Q in >= 2 passes)
    for n, (rq, j) in enumerate(shape.get("cascade", [])):
        Q, qid = shapes.symid(c, "Q%d" % n, rq)
        parents.append(Q)
        kids = s.cell_to_children(qid, rq + 1)
        for i, k in enumerate(kids):
            if i == j % len(kids):
                group_ids.extend(s.cell_to_children(k, rq + 2))
            else:
                group_ids.append(k)
    # run: `count` consecutive cells of one resolution in id order from a symbolic, not necessarily
    # group-aligned start (the region is the union of the run's cells)
    for n, (rr, count) in enumerate(shape.get("runs", [])):
        for cell, cid in run_cells(c, s, "R%d" % n, rr, count):
            parents.append(cell)
            group_ids.append(cid)
    ids = list(group_ids)
    for cid in free_ids:
        ids.insert(rnd.randint(0, len(ids)), cid)
    if shape.get("dup"):
        ids.append(ids[rnd.randint(0, len(ids) - 1)])
    return ids, free_cells, parents


def run_cells(c, s, prefix, rr, count):
    """count consecutive valid cells at resolution rr (consecutive in the hierarchical enumeration:
    position S, then normalised segment, then face), starting at a symbolic cell."""
    out = []
    if rr == 0:
        f0 = c.int(prefix + ".face", 0, 12 - count)
        for k in range(count):
            cell = shapes.mkcell(f0 + k, 0, 0, 0)
            out.append((cell, s.serialize(cell)))
        return out
    if rr == 1:
        t0 = c.int(prefix + ".top6", 0, 60 - count)
        for k in range(count):
            t = t0 + k
            org = s.origins[t // 5]
            seg = (t % 5 + org.first_quintant) % 5
            cell = shapes.A5Cell(origin=org, segment=seg, S=0, resolution=1)
            out.append((cell, s.serialize(cell)))
        return out
    f = c.int(prefix + ".face", 0, 11)
    g = c.int(prefix + ".segment", 0, 4)
    S0 = c.int(prefix + ".S", 0, 4 ** (rr - 1) - count)
    for k in range(count):
        cell = shapes.mkcell(f, g, S0 + k, rr)
        out.append((cell, s.serialize(cell)))
    return out


def rnd_seed(shape, seed):
    return seed * 7919 + zlib.crc32(repr(sorted(shape.items())).encode())


def finest(shape):
    rs = list(shape.get("free", [])) + [rp + lv for rp, lv in shape.get("groups", [])]
    rs += [rq + 2 for rq, j in shape.get("cascade", [])] + [rr for rr, n in shape.get("runs", [])]
    return max(rs)


def h_compact(c, shape, mode, seed=0):
    s, cm = install()
    rnd = random.Random(rnd_seed(shape, seed))
    ids, free_cells, parents = build_input(c, s, shape, rnd)
    tops = free_cells + parents            # the input region is the union of these cells
    if mode == "canonical":
        # precondition of C09: no cell is an ancestor of another (equal cells allowed)
        for i in range(len(tops)):
            for j in range(i + 1, len(tops)):
                if i >= len(free_cells) and j >= len(free_cells) and not shape.get("groups") or \
                        (i >= len(free_cells) and j >= len(free_cells) and len(shape.get("groups", [])) < 2
                         and not shape.get("cascade")):
                    continue     # cells of one structured family are disjoint by construction
                a, b = tops[i], tops[j]
                both_free = i < len(free_cells) and j < len(free_cells)
                ok = sx.And(sx.Not(shapes.anc(a, b)), sx.Not(shapes.anc(b, a)))
                if both_free:
                    ok = sx.Or(shapes.same_cell(a, b), ok)
                c.assume(ok)
    arg = list(ids)
    before = list(arg)
    try:
        Y = cm.compact(arg)
    except Exception as ex:
        c.fail("compact-does-not-raise", info={"exc": "%s: %s" % (type(ex).__name__, ex)})
        return
    c.prove(len(arg) == len(before) and all(x is y for x, y in zip(arg, before)), "argument-not-modified")
    try:
        Yd = [decode(s, y) for y in Y]
    except Exception as ex:
        c.fail("output-ids-decode", info={"exc": "%s: %s" % (type(ex).__name__, ex)})
        return
    R = finest(shape)
    if mode == "coverage":
        z = shapes.symcell(c, "z", R) if R >= 0 else shapes.A5Cell(origin=s.origins[0], segment=0, S=0, resolution=-1)
        for yd in Yd:
            if yd["resolution"] > R:
                c.fail("output-finer-than-input")
                return
        covX = sx.Or(*[shapes.anc(t, z) for t in tops])
        covY = sx.Or(*[shapes.anc(yd, z) for yd in Yd])
        c.prove(sx.Implies(covX, covY), "nothing-lost")
        c.prove(sx.Implies(covY, covX), "nothing-added")
        return
    # canonical
    if len(Y) > 1:
        c.prove(sx.SymBool(z3.Distinct(*[sx.iexpr(y) for y in Y])), "output-duplicate-free")
    for n, yd in enumerate(Yd):
        c.prove(sx.Not(group_complete(yd, Yd)), "no-complete-sibling-group-left")
    anti = []
    for i in range(len(Yd)):
        for j in range(len(Yd)):
            if i != j:
                anti.append(sx.Not(shapes.anc(Yd[i], Yd[j])))
    c.prove(sx.And(*anti), "output-is-antichain")
    if len(Y) <= shape.get("idem_max", 6):
        try:
            Y2 = cm.compact(list(Y))
        except Exception as ex:
            c.fail("compact-does-not-raise", info={"exc": "%s: %s" % (type(ex).__name__, ex), "second": True})
            return
        same = sx.And(*([sx.Or(*[a == b for b in Y]) for a in Y2] + [sx.Or(*[a == b for b in Y2]) for a in Y]))
        c.prove(sx.And(len(Y2) == len(Y), same), "compacting-again-changes-nothing")


def h_order(c, rs, seed=0):
    """result as a set does not depend on input order or duplication (small lists)."""
    s, cm = install()
    cells, ids = [], []
    for n, r in enumerate(rs):
        cell, cid = shapes.symid(c, "x%d" % n, r)
        cells.append(cell)
        ids.append(cid)
    for i in range(len(cells)):
        for j in range(i + 1, len(cells)):
            a, b = cells[i], cells[j]
            c.assume(sx.Or(shapes.same_cell(a, b), sx.And(sx.Not(shapes.anc(a, b)), sx.Not(shapes.anc(b, a)))))
    Y1 = cm.compact(list(ids))
    perm = list(reversed(ids)) + [ids[0]]
    Y2 = cm.compact(perm)
    same = sx.And(*([sx.Or(*[a == b for b in Y1]) for a in Y2] + [sx.Or(*[a == b for b in Y2]) for a in Y1]))
    c.prove(same, "order-and-duplication-independent")


# ---- replay ----------------------------------------------------------------------------
PRE = """
import sys, random
from a5.core.serialization import serialize, deserialize, get_resolution, cell_to_children, cell_to_parent
from a5.core.compact import compact, uncompact
from a5.core.utils import A5Cell
from a5.core.origin import origins
def mk(f,g,S,r):
    if r == -1: return 0
    return serialize(A5Cell(origin=origins[f], segment=g if r>=1 else 0, S=S if r>=2 else 0, resolution=r))
def key(x):
    r = get_resolution(x)
    if r == -1: return (-1,)
    d = deserialize(x)
    return (r, d['origin'].id, d['segment'] if r>=1 else 0, d['S'] if r>=2 else 0)
def parent_key(k):
    r,f,g,S = k
    if r == 0: return (-1,)
    if r == 1: return (0,f,0,0)
    if r == 2: return (1,f,g,0)
    return (r-1,f,g,S>>2)
def nsib(r): return 12 if r == 0 else 5 if r == 1 else 4
def ref_compact(keys):
    # set-based reference: drop covered cells, then merge complete groups bottom-up
    ks = set(keys)
    def ancs(k):
        out = []
        while k != (-1,):
            k = parent_key(k); out.append(k)
        return out
    ks = {k for k in ks if not any(a in ks for a in ancs(k))}
    changed = True
    while changed:
        changed = False
        groups = {}
        for k in ks:
            if k != (-1,): groups.setdefault(parent_key(k), []).append(k)
        for p, ch in groups.items():
            if len(ch) == nsib(ch[0][0]):
                ks -= set(ch); ks.add(p); changed = True
    return ks
def bad(sig):
    print("REPRODUCED " + sig); sys.exit(1)
"""


def replay_script(cx, mode):
    inp, p = cx["inputs"], cx["params"]
    if cx["func"] == "h_order":
        rs = p["rs"]
        cells = ", ".join("mk(%d,%d,%d,%d)" % (inp.get("x%d.face" % n, 0), inp.get("x%d.segment" % n, 0),
                                                inp.get("x%d.S" % n, 0), r) for n, r in enumerate(rs))
        return PRE + """
ids = [%s]
Y1 = compact(list(ids)); Y2 = compact(list(reversed(ids)) + [ids[0]])
if set(Y1) != set(Y2): bad("compact-order-dependent:rs=%s")
print("ok")
""" % (cells, "/".join(map(str, rs)))
    shape = p["shape"]
    free = ", ".join("mk(%d,%d,%d,%d)" % (inp.get("x%d.face" % n, 0), inp.get("x%d.segment" % n, 0),
                                           inp.get("x%d.S" % n, 0), r) for n, r in enumerate(shape.get("free", [])))
    groups = ", ".join("(mk(%d,%d,%d,%d), %d)" % (inp.get("P%d.face" % n, 0), inp.get("P%d.segment" % n, 0),
                                                  inp.get("P%d.S" % n, 0), rp, rp + lv)
                       for n, (rp, lv) in enumerate(shape.get("groups", [])))
    tag = "free=%s;groups=%s" % ("/".join(map(str, shape.get("free", []))),
                                 "/".join("%d+%d" % tuple(g) for g in shape.get("groups", [])))
    for key in ("drop", "cascade", "runs"):
        if shape.get(key) is not None:
            tag += ";%s=%s" % (key, str(shape[key]).replace(" ", ""))
    return PRE + """
free = [%s]; groups = [%s]
drop, cascade, runs, runstart = %r, %r, %r, %r
ids = []
for n, (pid, b) in enumerate(groups):
    kids = cell_to_children(pid, b)
    if drop is not None and n == 0: kids = [k for i, k in enumerate(kids) if i != drop %% len(kids)]
    ids.extend(kids)
for (rq, j), q in zip(cascade, %s):
    kids = cell_to_children(q, rq + 1)
    for i, k in enumerate(kids):
        ids.extend(cell_to_children(k, rq + 2) if i == j %% len(kids) else [k])
for (rr, count), st in zip(runs, runstart):
    for k in range(count):
        if rr == 0: ids.append(mk(st["face"] + k, 0, 0, 0))
        elif rr == 1:
            t = st["top6"] + k; f = t // 5
            ids.append(mk(f, (t %% 5 + origins[f].first_quintant) %% 5, 0, 1))
        else: ids.append(mk(st["face"], st["segment"], st["S"] + k, rr))
rnd = random.Random(%d)
for x in free: ids.insert(rnd.randint(0, len(ids)), x)
if %r: ids.append(ids[rnd.randint(0, len(ids) - 1)])
arg = list(ids)
try:
    Y = compact(arg)
except Exception as ex:
    bad("compact-raises:%s:" + type(ex).__name__)
if arg != ids: bad("compact-modifies-argument:%s")
R = max(get_resolution(x) for x in ids)
mode = %r
if any(get_resolution(y) > R for y in Y): bad("compact-output-finer-than-input:%s")
cx = set(uncompact(ids, R)); cy = set(uncompact(Y, R))
if mode == "coverage":
    if cx - cy: bad("compact-loses-coverage:%s")
    if cy - cx: bad("compact-adds-coverage:%s")
else:
    if len(set(Y)) != len(Y): bad("compact-output-duplicates:%s")
    ref = ref_compact([key(x) for x in ids])
    got = {key(y) for y in Y}
    if got != ref:
        bad("compact-not-canonical:%s:" + ("unmerged-group" if len(got) > len(ref) else "other"))
    if set(compact(list(Y))) != set(Y): bad("compact-not-idempotent:%s")
print("ok")
""" % (free, groups, shape.get("drop"), [list(x) for x in shape.get("cascade", [])], [list(x) for x in shape.get("runs", [])],
       [{k.split(".")[1]: v for k, v in inp.items() if k.startswith("R%d." % n)} for n in range(len(shape.get("runs", [])))],
       "[" + ", ".join("mk(%d,%d,%d,%d)" % (inp.get("Q%d.face" % n, 0), inp.get("Q%d.segment" % n, 0), inp.get("Q%d.S" % n, 0), rq)
                       for n, (rq, j) in enumerate(shape.get("cascade", []))) + "]",
       rnd_seed(shape, p.get("seed", 0)), bool(shape.get("dup")), tag, tag, mode, tag, tag, tag, tag, tag, tag)
