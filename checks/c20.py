"""C20 - count and area metadata agree with the hierarchy."""
import z3
from symx import core as sx
from symx import floats as sf
from .common import Job
from . import shapes
from .c06 import expected_children

BOUNDS = {"count identities": "parent resolution a and child resolution r symbolic in -1..30 (one exploration, forks on the "
                              "code's own case split), 136-bit working width for the product",
          "children length": "symbolic cell at every r in -1..29, child resolution r..min(r+3,29)",
          "cell_area": "r symbolic in -1..30, IEEE-754 binary64 bit-precise (z3 FP, RNE)"}
OUTSIDE = ["fan-out of more than 3 levels for the len(cell_to_children) clause (count side is fully symbolic)"]
STUBS = ["serialization.origins through SymTable"]
ASSUMPTIONS = ["int -> float conversion and float division are IEEE-754 round-to-nearest-even (CPython on this platform)",
               "'the number of distinct cells obtained by expanding the world cell' is tied to the count by C06 (children distinct and "
               "complete) plus the length obligation here"]


def _ncells(r):
    """independent closed form: 12 * 5 * 4^(r-1) (r>=1), 12 (r=0), world counted as one cell."""
    return sx.ite(r < 0, 1, sx.ite(r == 0, 12, 60 * (1 << (2 * sx.smax(r - 1, 0)))))


def h_counts(c):
    from a5.core import cell_info
    a = c.int("a", -1, 30)
    r = c.int("r", -1, 30)
    c.assume(a <= r)
    na = cell_info.get_num_cells(a)
    nr = cell_info.get_num_cells(r)
    k = cell_info.get_num_children(a, r)
    c.prove(sx.ite(a < 0, na == 0, na == _ncells(a)), "get_num_cells(a)-closed-form")
    c.prove(k * _ncells(a) == sx.ite(r < 0, 1, nr), "num_cells(a)*num_children(a,r)==num_cells(r)")
    # 12 / 5 / 4 per level product, independent formulation
    lv12 = sx.ite(sx.And(a < 0, r >= 0), 12, 1)
    lv5 = sx.ite(sx.And(a < 1, r >= 1), 5, 1)
    n4 = sx.smax(r - sx.smax(a, 1), 0)
    c.prove(k == lv12 * lv5 * (1 << (2 * n4)), "num_children==12/5/4-per-level-product")


def h_counts_reverse(c):
    from a5.core import cell_info
    a = c.int("a", -1, 30)
    r = c.int("r", -1, 30)
    c.assume(a > r)
    c.prove(cell_info.get_num_children(a, r) == 0, "num_children(a>r)==0")


def h_len(c, r, b):
    s = shapes.install_symtables()
    from a5.core import cell_info
    cell, cid = shapes.symid(c, "c", r)
    K = s.cell_to_children(cid, b)
    c.prove(len(K) == cell_info.get_num_children(r, b), "len(cell_to_children)==get_num_children")
    c.prove(len(K) == expected_children(r, b), "len(cell_to_children)==12/5/4-product")
    import a5.core.compact as cm
    U = cm.uncompact([cid], b)
    c.prove(len(U) == cell_info.get_num_children(r, b), "len(uncompact)==get_num_children")


def h_world(c, r):
    """expanding the world cell: count of distinct ids == get_num_cells(r) (concrete ids, r<=3);
    and for symbolic valid d at r: d is in the expansion."""
    s = shapes.install_symtables()
    from a5.core import cell_info
    K = s.cell_to_children(0, r)
    c.prove(len(set(K)) == cell_info.get_num_cells(r), "distinct(expand(world,r))==get_num_cells(r)")
    d, did = shapes.symid(c, "d", r)
    c.prove(sx.Or(*[did == k for k in K]), "every-valid-cell-is-in-the-expansion")


def h_area(c):
    from a5.core import cell_info
    sf.install_float_mode(c, "fp")
    r = c.int("r", -1, 30)
    A = cell_info.cell_area(r)
    A1 = cell_info.cell_area(r + 1)
    total = cell_info.AUTHALIC_AREA
    c.prove(sx.Implies(r <= 29, A1 < A), "cell_area-strictly-decreasing")
    n = sx.ite(r < 0, 1, cell_info.get_num_cells(r))
    prod = A * n
    ulp = 2.0 ** (int(__import__("math").log2(total)) - 52)
    diff = prod - total
    c.prove(sx.And(diff <= ulp, diff >= -ulp), "cell_area*num_cells==sphere-area-within-1ulp")
    c.prove(A > 0.0, "cell_area-positive")


def jobs(tier, seed):
    js = [Job("counts", "h_counts", {}, {"width": 136, "allow_mul": True, "query_timeout_ms": 600000}, weight=100),
          Job("counts-reverse", "h_counts_reverse", {}, {"width": 136}),
          Job("area", "h_area", {}, {"logic": None, "query_timeout_ms": 600000}, weight=100)]
    for r in range(-1, 30):
        top = min(r + (1 if tier == "quick" else 3), 29)
        bs = set(range(r, top + 1))
        if tier == "quick" and r in (-1, 0, 1, 2, 7, 26):
            bs |= set(range(r, min(r + 3, 29) + 1))
        for b in sorted(bs):
            js.append(Job("len[r=%d,b=%d]" % (r, b), "h_len", {"r": r, "b": b}, weight=expected_children(r, b) / 10))
    for r in range(0, 4):
        js.append(Job("world[r=%d]" % r, "h_world", {"r": r}, weight=20))
    return js


_PRE = """
import sys
from a5.core.cell_info import get_num_cells, get_num_children, cell_area, AUTHALIC_AREA
from a5.core.serialization import serialize, cell_to_children
from a5.core.compact import uncompact
from a5.core.utils import A5Cell
from a5.core.origin import origins
def mk(f,g,S,r):
    if r == -1: return 0
    return serialize(A5Cell(origin=origins[f], segment=g if r>=1 else 0, S=S if r>=2 else 0, resolution=r))
def exp(r,b):
    n=1
    for l in range(r,b): n *= 12 if l==-1 else 5 if l==0 else 4
    return n
def nc(r): return 1 if r < 0 else 12 if r == 0 else 60*4**(r-1)
def bad(sig):
    print("REPRODUCED " + sig); sys.exit(1)
"""


def replay(cx):
    inp, p, f = cx["inputs"], cx["params"], cx["func"]
    if f in ("h_counts", "h_counts_reverse"):
        return {"script": _PRE + """
a, r = %d, %d
if a > r:
    if get_num_children(a, r) != 0: bad("num_children-nonzero-for-a>r:a=%%d,r=%%d" %% (a, r))
else:
    if (get_num_cells(a) != (0 if a < 0 else nc(a))): bad("get_num_cells-wrong:a=%%d" %% a)
    if get_num_children(a, r) * nc(a) != (1 if r < 0 else get_num_cells(r)): bad("count-identity:a=%%d,r=%%d" %% (a, r))
    if get_num_children(a, r) != exp(a, r): bad("num_children-product:a=%%d,r=%%d" %% (a, r))
print("ok")
""" % (inp["a"], inp["r"]), "description": "count identities"}
    if f == "h_len":
        return {"script": _PRE + """
r, b = %d, %d
c = mk(%d,%d,%d,r)
if len(cell_to_children(c, b)) != get_num_children(r, b) or len(cell_to_children(c, b)) != exp(r, b): bad("children-length-vs-count:r=%%d,b=%%d" %% (r, b))
if len(uncompact([c], b)) != get_num_children(r, b): bad("uncompact-length-vs-count:r=%%d,b=%%d" %% (r, b))
print("ok")
""" % (p["r"], p["b"], inp.get("c.face", 0), inp.get("c.segment", 0), inp.get("c.S", 0)), "description": "children length"}
    if f == "h_world":
        return {"script": _PRE + """
r = %d
K = cell_to_children(0, r)
if len(set(K)) != get_num_cells(r): bad("world-expansion-count:r=%%d" %% r)
if mk(%d,%d,%d,r) not in K: bad("world-expansion-incomplete:r=%%d" %% r)
print("ok")
""" % (p["r"], inp.get("d.face", 0), inp.get("d.segment", 0), inp.get("d.S", 0)), "description": "world expansion"}
    if f == "h_area":
        return {"script": _PRE + """
import math
r = %d
if r <= 29 and not (cell_area(r + 1) < cell_area(r)): bad("cell_area-not-decreasing:r=%%d" %% r)
ulp = 2.0 ** (int(math.log2(AUTHALIC_AREA)) - 52)
if abs(cell_area(r) * (1 if r < 0 else get_num_cells(r)) - AUTHALIC_AREA) > ulp: bad("cell_area-times-count:r=%%d" %% r)
if not cell_area(r) > 0: bad("cell_area-nonpositive:r=%%d" %% r)
print("ok")
""" % inp["r"], "description": "cell_area"}
    return None


def _patch_children_count():
    import a5.core.cell_info as ci
    orig = ci.get_num_children

    def bad(p, c):
        if isinstance(p, int) and isinstance(c, int):
            return orig(p, c)
        n = orig(p, c)
        return sx.ite(sx.And(p == 0, c == 17), n + n, n)
    ci.get_num_children = bad
    return lambda: setattr(ci, "get_num_children", orig)


def _patch_area():
    import a5.core.cell_info as ci
    orig = ci.cell_area

    def bad(r):
        if bool(r == 23):
            return orig(r - 1)
        return orig(r)
    ci.cell_area = bad
    return lambda: setattr(ci, "cell_area", orig)


def selftests(seed):
    return [Job("selftest-children-count", "h_counts", {}, {"width": 136, "allow_mul": True, "patch": "_patch_children_count"}),
            Job("selftest-area", "h_area", {}, {"logic": None, "patch": "_patch_area"})]
