"""call list of the C17 long-history run, importable without symx/z3 (used by the replay)."""
import random


def long_calls(kind, seed):
    import a5
    import a5.core.hilbert as hh
    rnd = random.Random(seed + 17)
    calls = []
    if kind == "hilbert":
        for o in ("uv", "vu", "uw", "wu", "vw", "wv"):
            for h in (1, 2, 3, 5, 9, 11, 12, 19, 21, 28):
                for s0 in list(range(0, 24)) + [4 ** h - 1, 4 ** h // 2]:
                    if s0 < 4 ** h:
                        calls.append(("s_to_anchor(%d,%d,%s)" % (s0, h, o),
                                      lambda s0=s0, h=h, o=o: (lambda a: [a.k, list(a.offset), list(a.flips)])(hh.s_to_anchor(s0, h, o))))
    else:
        pts = [(rnd.uniform(-180, 180), rnd.uniform(-90, 90)) for _ in range(120)]
        pts += [(rnd.uniform(-180, 180), rnd.choice((-1, 1)) * rnd.uniform(84, 90)) for _ in range(120)]
        pts += [(rnd.uniform(-180, 180), rnd.choice((-1, 1)) * rnd.uniform(80, 90)) for _ in range(160)]
        for p in pts:
            for r in (0, 1, 3, 9, 24):
                calls.append(("lonlat_to_cell(%r,%d)" % (p, r), lambda p=p, r=r: a5.lonlat_to_cell(p, r)))
    return calls
