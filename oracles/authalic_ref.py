"""Reference series for the WGS84 authalic latitude, derived from the closed-form ellipsoidal
definition (NOT from the library's coefficient tables), with 60-digit mpmath arithmetic.

    q(phi) = (1-e^2) [ sin(phi)/(1-e^2 sin^2(phi)) - 1/(2e) ln((1-e sin(phi))/(1+e sin(phi))) ]
    xi(phi) = asin(q(phi)/q(pi/2))

xi - phi is odd and pi-periodic: sum_k K_k sin(2k phi).  The K_k are obtained by an N-point
discrete sine transform (N=64; aliasing involves K_{64-k}, |K_k| ~ 2.2e-3 * (1.7e-3)^(k-1), so
the aliasing and the truncation at k=12 are both < 1e-30).  The inverse series is obtained the same
way from the numerically inverted closed form.
"""
from fractions import Fraction
import mpmath as mp

mp.mp.dps = 60
A = mp.mpf(6378137)
F = 1 / mp.mpf("298.257223563")
E2 = F * (2 - F)
E = mp.sqrt(E2)


def q(phi):
    s = mp.sin(phi)
    return (1 - E2) * (s / (1 - E2 * s * s) - (1 / (2 * E)) * mp.log((1 - E * s) / (1 + E * s)))


QP = q(mp.pi / 2)


def xi(phi):
    return mp.asin(q(phi) / QP)


def phi_of_xi(x):
    if x == 0:
        return mp.mpf(0)
    f = lambda p: xi(p) - x  # noqa: E731
    return mp.findroot(f, x, tol=mp.mpf(10) ** -55)


def sine_coeffs(fn, nterms=12, N=64):
    """K_k, k=1..nterms of an odd pi-periodic d(t) = sum K_k sin(2 k t)."""
    vals = []
    for j in range(N):
        t = mp.pi * j / N
        # d is odd about 0 and about pi/2: evaluate on [0, pi) using d(t) = -d(pi - t)
        if t <= mp.pi / 2:
            vals.append(fn(t))
        else:
            vals.append(-fn(mp.pi - t))
    out = []
    for k in range(1, nterms + 1):
        s = mp.mpf(0)
        for j in range(N):
            s += vals[j] * mp.sin(2 * k * mp.pi * j / N)
        out.append(2 * s / N)
    return out


def to_fraction(x, digits=45):
    return Fraction(mp.nstr(x, digits, strip_zeros=False).replace(" ", "")) if False else Fraction(str(mp.nstr(x, digits)))


_cache = {}


def forward_coeffs(nterms=12):
    if ("f", nterms) not in _cache:
        _cache[("f", nterms)] = sine_coeffs(lambda t: xi(t) - t, nterms)
    return _cache[("f", nterms)]


def inverse_coeffs(nterms=12):
    if ("i", nterms) not in _cache:
        _cache[("i", nterms)] = sine_coeffs(lambda t: phi_of_xi(t) - t, nterms)
    return _cache[("i", nterms)]


if __name__ == "__main__":
    for name, cs in (("forward", forward_coeffs()), ("inverse", inverse_coeffs())):
        print(name)
        for k, c in enumerate(cs, 1):
            print("  K%-2d = %s" % (k, mp.nstr(c, 25)))
    # sanity: series vs closed form at a few latitudes
    for deg in (1, 30, 45, 60, 89):
        t = mp.radians(deg)
        ser = sum(c * mp.sin(2 * k * t) for k, c in enumerate(forward_coeffs(), 1))
        print(deg, mp.nstr(ser - (xi(t) - t), 5))
