#!/usr/bin/env python3
"""Re-runs the stored seeded changes (/verif/seeded/*/patch.diff) against the current checks.
usage: tools/reseed.py [name-substring ...]   (one scratch worktree of /repo HEAD under /tmp, removed afterwards)
For every seeded change: apply the patch in the scratch worktree, run its demonstration (must fail), run the check of the
property it breaks plus every check recorded as catching it, restore; meta.json is updated in place."""
import glob, json, os, subprocess, sys, time
V = os.path.dirname(os.path.dirname(os.path.abspath(__file__)))
WT = "/tmp/wt/reseed"
filt = sys.argv[1:]


def run(cmd, **kw):
    return subprocess.run(cmd, capture_output=True, text=True, **kw)


run(["git", "-C", "/repo", "worktree", "remove", "--force", WT])
assert run(["git", "-C", "/repo", "worktree", "add", "--detach", WT, "HEAD"]).returncode == 0
env = dict(os.environ, PYTHONPATH=WT)
try:
    for d in sorted(glob.glob(os.path.join(V, "seeded", "*"))):
        name = os.path.basename(d)
        if filt and not any(f in name for f in filt):
            continue
        m = json.load(open(os.path.join(d, "meta.json")))
        run(["git", "-C", WT, "checkout", "--", "a5"])
        ap = run(["git", "-C", WT, "apply", "--whitespace=nowarn", os.path.join(d, "patch.diff")])
        if ap.returncode != 0:
            print(name, "PATCH DOES NOT APPLY", ap.stderr[:200])
            continue
        demo = run(["/venv/bin/python", os.path.join(d, "demo.py")], cwd=WT, env=env)
        checks = sorted(set([m["property"]] + list(m.get("caught_by") or []) + [x for x in os.environ.get("RESEED_EXTRA", "").split(",") if x]))
        for c in checks:
            t0 = time.time()
            r = run([os.path.join(V, "check"), c, "--tier", "quick"], cwd=V, env=dict(os.environ, A5_REPO=WT, VERIF_EVIDENCE_DIR="/tmp/verif-seeded-evidence"))
            m.setdefault("checks", {})[c] = {"exit": r.returncode, "wall_s": round(time.time() - t0, 1),
                                              "violations": [l for l in r.stdout.splitlines() if l.startswith("VIOLATION") or l.startswith("  signature")][:6],
                                              "tail": r.stdout.splitlines()[-4:], "stderr_tail": r.stderr.splitlines()[-3:]}
        m["confirmed"]["demo_exit_with_change"] = demo.returncode
        m["caught_by"] = [c for c, v in m["checks"].items() if v["exit"] == 1]
        json.dump(m, open(os.path.join(d, "meta.json"), "w"), indent=1)
        print(name, "demo", demo.returncode, "caught by", m["caught_by"], {c: (m["checks"][c]["exit"], m["checks"][c]["wall_s"]) for c in checks}, flush=True)
finally:
    run(["git", "-C", "/repo", "worktree", "remove", "--force", WT])
