"""Developer tool: run one harness in-process with a time budget and print stats/profile.
usage: python3-vt tools/prof.py checks.compactsym h_compact "{'shape':{...},'mode':'coverage'}" 60 [--profile]"""
import sys
import time
import importlib
import cProfile
import pstats
sys.path.insert(0, '/verif')
sys.path.insert(0, __import__('os').environ.get('A5_REPO', '/repo'))
from symx import core as sx  # noqa

mod = importlib.import_module(sys.argv[1])
fn = getattr(mod, sys.argv[2])
params = eval(sys.argv[3])
budget = float(sys.argv[4])
opts = eval(sys.argv[6]) if len(sys.argv) > 6 else {}
t = time.time()
pr = cProfile.Profile()
if '--profile' in sys.argv:
    pr.enable()
res = sx.explore(fn, params, time_budget=budget, **opts)
pr.disable()
st = res.stats
print('paths', st.paths, 'aborted', st.aborted_paths, 'dec', st.decisions, 'feasq', st.feas_queries,
      round(st.feas_time, 1), 'q', st.queries, round(st.query_time, 1), st.verdicts,
      'merged', st.merged_calls, st.merged_paths, res.inconclusive[:3], len(res.counterexamples), round(time.time() - t, 1))
for k, v in st.obligations.items():
    print('  ', k, v)
for cx in res.counterexamples[:3]:
    print(cx)
if '--profile' in sys.argv:
    pstats.Stats(pr).sort_stats('cumulative').print_stats(25)
