#!/bin/bash
# Runs every registered quick check against /repo (clean tree expected) and rewrites /verif/evidence/*.json.
cd "$(dirname "$0")/.."
git -C /repo status --short | grep -v '^??' && { echo "/repo has uncommitted changes"; exit 2; }
rc=0
for id in $(python3-vt -c "import json;print(' '.join(c['property_id'] for c in json.load(open('MANIFEST.json'))['checks']))"); do
  start=$(date +%s)
  out=$(./check $id --tier ${1:-quick} 2>&1); code=$?
  echo "$id exit=$code $(( $(date +%s) - start ))s :: $(echo "$out" | grep -m1 "tier=")"
  echo "$out" | grep -E "^(VIOLATION|KNOWN-FINDING|INCONCLUSIVE|HARNESS-ERROR)" | cut -c1-160
  [ $code -ne 0 ] && rc=1
done
python3-vt - <<'PY'
import json, glob, jsonschema
sch = json.load(open('/root/.vp/EVIDENCE.schema.json'))
for f in sorted(glob.glob('evidence/*.json')):
    jsonschema.validate(json.load(open(f)), sch)
print("evidence files valid:", len(glob.glob('evidence/*.json')))
PY
exit $rc
