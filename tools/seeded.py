#!/usr/bin/env python3
"""Validate a sub-agent's mutation and run a check against it.
usage: tools/seeded.py <PID> <worktree> <k> [--tier quick] [--checks C05,C06]
 1. in <worktree>: apply _out/m<k>.diff, run the full test-suite, run the demo (must fail), revert, run demo (must pass)
 2. with the diff applied in <worktree>, run ./check <PID> with A5_REPO=<worktree> (the checks then import that tree)
 3. store everything under /verif/seeded/<PID>-m<k>/ with meta.json
"""
import json, os, subprocess, sys, shutil, time
V = os.path.dirname(os.path.dirname(os.path.abspath(__file__)))
pid, wt, k = sys.argv[1], sys.argv[2], sys.argv[3]
tier = "quick"
checks = [pid]
outname = None
for i, a in enumerate(sys.argv):
    if a == "--tier": tier = sys.argv[i + 1]
    if a == "--checks": checks = sys.argv[i + 1].split(",")
    if a == "--name": outname = sys.argv[i + 1]
out = os.path.join(wt, "_out")
diff = os.path.join(out, "m%s.diff" % k)
demo = os.path.join(out, "m%s_demo.py" % k)
meta_in = json.load(open(os.path.join(out, "m%s.json" % k)))
env = dict(os.environ, PYTHONPATH=wt)

def run(cmd, **kw):
    return subprocess.run(cmd, capture_output=True, text=True, **kw)

def git(*a):
    return run(["git", "-C", wt] + list(a))

git("checkout", "--", "a5")
r_clean = run(["/venv/bin/python", demo], cwd=wt, env=env)
ap = git("apply", "--whitespace=nowarn", diff)
assert ap.returncode == 0, ap.stderr
where = run(["/venv/bin/python", "-c", "import a5;print(a5.__file__)"], cwd=wt, env=env).stdout.strip()
assert where.startswith(wt), where
t = run(["/venv/bin/python", "-m", "pytest", "-q", "-p", "no:cacheprovider", "-x"], cwd=wt, env=env)
tests_ok = t.returncode == 0
r_mut = run(["/venv/bin/python", demo], cwd=wt, env=env)
res = {}
for c in checks:
    t0 = time.time()
    r = run([os.path.join(V, "check"), c, "--tier", tier], cwd=V, env=dict(os.environ, A5_REPO=wt, VERIF_EVIDENCE_DIR="/tmp/verif-seeded-evidence"))
    res[c] = {"exit": r.returncode, "wall_s": round(time.time() - t0, 1),
              "violations": [l for l in r.stdout.splitlines() if l.startswith("VIOLATION") or l.startswith("  signature")],
              "tail": r.stdout.splitlines()[-6:], "stderr_tail": r.stderr.splitlines()[-5:]}
git("checkout", "--", "a5")
d = os.path.join(V, "seeded", outname or "%s-m%s" % (pid, k))
os.makedirs(d, exist_ok=True)
try:
    old = json.load(open(os.path.join(d, "meta.json")))
    for c, v in old.get("checks", {}).items():
        res.setdefault(c, v)          # keep results of checks not re-run now
except Exception:
    pass
for v in res.values():
    v["violations"] = v.get("violations", [])[:6]
shutil.copy(diff, os.path.join(d, "patch.diff"))
shutil.copy(demo, os.path.join(d, "demo.py"))
meta = {"property": pid, "summary": meta_in.get("summary"), "needs": meta_in.get("needs"), "files": meta_in.get("files"),
        "confirmed": {"tests_pass_with_change": tests_ok, "pytest_tail": t.stdout.splitlines()[-1:] ,
                      "demo_exit_with_change": r_mut.returncode, "demo_exit_without_change": r_clean.returncode,
                      "demo_output_with_change": r_mut.stdout.splitlines()[-3:]},
        "ran": "git apply patch.diff in a scratch worktree; pytest -q -x; python demo.py (with/without); ./check <ID> --tier %s with A5_REPO=<worktree>" % tier,
        "checks": res,
        "valid": bool(tests_ok and r_mut.returncode != 0 and r_clean.returncode == 0),
        "caught_by": [c for c, v in res.items() if v["exit"] == 1]}
json.dump(meta, open(os.path.join(d, "meta.json"), "w"), indent=1)
print(pid, "m" + k, "valid" if meta["valid"] else "INVALID", "tests", tests_ok, "demo", r_mut.returncode, r_clean.returncode,
      "| caught by:", meta["caught_by"], {c: (v["exit"], v["wall_s"]) for c, v in res.items()})
for c, v in res.items():
    for l in v["violations"][:4]: print("   ", l)
    if v["exit"] not in (0, 1): print("   stderr:", v["stderr_tail"])
