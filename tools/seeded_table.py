#!/usr/bin/env python3
"""Regenerates the seeded-changes table of DESIGN.md from /verif/seeded/*/meta.json."""
import json, os, glob, re
V = os.path.dirname(os.path.dirname(os.path.abspath(__file__)))
rows = []
for d in sorted(glob.glob(os.path.join(V, "seeded", "*"))):
    mp = os.path.join(d, "meta.json")
    if not os.path.exists(mp):
        continue
    m = json.load(open(mp))
    name = os.path.basename(d)
    summ = (m.get("summary") or "").replace("\n", " ").replace("|", "/")
    summ = summ if len(summ) < 170 else summ[:167] + "..."
    caught = ", ".join(m.get("caught_by") or []) or "—"
    ran = ", ".join("%s:%s" % (c, {0: "pass", 1: "VIOLATION", 3: "harness-error"}.get(v["exit"], v["exit"])) for c, v in sorted(m.get("checks", {}).items()))
    note = m.get("note")
    rows.append("| %s | %s | %s | %s | %s |" % (name, m.get("property"), summ, caught, ran + (" — " + note if note else "")))
table = "| seeded change | breaks | what it does | caught by | checks run (exit) / note |\n|---|---|---|---|---|\n" + "\n".join(rows)
n = len(rows); c = sum(1 for r in rows if "| — |" not in r)
table += "\n\n%d seeded changes, %d caught by at least one check (quick tier unless noted).\n" % (n, c)
p = os.path.join(V, "DESIGN.md")
s = open(p).read()
s = re.sub(r"<!-- SEEDED-TABLE-BEGIN -->.*<!-- SEEDED-TABLE-END -->", "<!-- SEEDED-TABLE-BEGIN -->\n" + table + "<!-- SEEDED-TABLE-END -->", s, flags=re.S)
open(p, "w").write(s)
print(n, "rows", c, "caught")
