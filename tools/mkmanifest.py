#!/usr/bin/env python3
"""Regenerates MANIFEST.json from the table below (keeps it schema-valid)."""
import json, os, sys
V = os.path.dirname(os.path.dirname(os.path.abspath(__file__)))
props = [json.loads(l) for l in open(os.path.join(V, "properties.jsonl"))]

TECH = "bounded symbolic execution of the real Python code (symx proxies) + z3 SMT queries per path; counterexamples replayed on the unmodified API"

CLAIMED = {
 "C05": dict(
   text="For every resolution 0..30 one solver verdict per path covers all S of that resolution (up to 2^56 values), all 12 faces and 5 segments: id in [1,2^64), get_resolution(id)==r, deserialize(serialize(cell))==cell, equal ids => equal cells (same and different resolutions), S out of range always raises, get_num_cells(r) = 12*5*4^(r-1) with r symbolic; the ids enumerated from the world cell (r<=3) are get_num_cells(r) many, distinct and complete against a symbolic cell; a decoded cell is unaffected by later decodes; the 96 fixture ids are pushed through the symbolic machinery (conformance). Bounded only by the type's own ranges; r=30 is a recorded known finding.",
   ref="DESIGN.md §4 C05",
   note="Trusted: CPython running the real functions on symx proxies, z3, the interval/known-bits guard that ties 72/136-bit vectors to Python ints. Assumes only the validity predicate face 0..11, segment 0..4, 0<=S<4^(r-1). Negative S / out-of-range face are outside the documented domain."),
 "C06": dict(
   text="Real cell_to_children/cell_to_parent/get_res0_cells executed on a symbolic cell (all S of the resolution, symbolic face and segment) for every r in -1..29: children count = 12/5/4 product, pairwise distinct, each at resolution b with parent c; completeness against an independent symbolic cell d and a decoded-field ancestor oracle; contiguity of descendants (r>=1); parent composition, uniqueness and resolution; out-of-order requests raise on every path; defaults mean +-1. One z3 verdict per obligation covers all ids of the level.",
   ref="DESIGN.md §4 C06",
   note="Fan-out bounded to 3 levels per call (<=960 ids per list; quick: 1 level plus the aperture jumps); deeper descents follow from the discharged composition obligation. origins table read through a symbolic ite view. Child resolution 30 excluded (C05 known finding)."),
 "C08": dict(
   text="Real compact() run on lists of symbolic ids (sorted/set/stride scan fork on solver-decided comparisons); for every feasible path z3 proves covered(X,z) <=> covered(compact(X),z) for an arbitrary symbolic finest-level cell z, with coverage defined on decoded fields (independent of is_first_child/get_stride/cell_to_parent). Shapes: all multisets of <=3 (thorough 4) free cells over resolutions -1..3 at arbitrary positions (duplicates, ancestors, any faces), complete sibling groups at every aperture (12/5/4) plus free cells, two-level groups.",
   ref="DESIGN.md §4 C08",
   note="Bounded list shapes (see evidence bounds); more than 4 free cells and free cells finer than res 6 are outside. `set` in a5.core.compact is shimmed so concrete and symbolic ids compare by value; origins via SymTable."),
 "C09": dict(
   text="Same symbolic runs of the real compact() restricted to antichain inputs (the property's precondition as a path assumption): output duplicate-free (Distinct), output antichain, no complete sibling group left (judged on decoded fields for all 12/5/4 apertures), compacting the output again changes nothing, result set independent of order/duplication for lists <=3. Found the res-0/res-1 sort-order defect (fixed in /repo 496f3b2).",
   ref="DESIGN.md §4 C09",
   note="Bounded list shapes as for C08; canonical = coverage (C08) + distinct + antichain + no complete group, a theorem of the hierarchy, stated as assumption."),
 "C10": dict(
   text="Real uncompact() on lists of <=3 symbolic cells (resolutions -1..29, target <= min+3): length equals the independent 12/5/4 product sum; each slice is distinct, at resolution t, maps back to its source cell through cell_to_parent and is complete against a symbolic descendant d with the decoded-field oracle; a cell finer than t raises on every path; the argument list is untouched and the result is a fresh list.",
   ref="DESIGN.md §4 C10",
   note="Lists of at most 3 cells, expansion <= 3 levels / 960 ids per cell; the function handles cells independently with one running offset, longer lists are outside the bound."),
 "C18": dict(
   text="Assume-guarantee decomposition, every part running the real code: (D) the digit transducers of s_to_anchor/ij_to_s are mutual inverses for ALL 4^h indices at levels h (quick: 1,2,3,4,8,16,28; thorough: every 1..28) and all 6 orientations, by bit-vector queries with exact cut points per level plus a monolithic cross-check at small h; (G) one inductive level step of the geometric digit extraction (real ij_to_quaternary/quaternary_to_kj/kj_to_ij) over the whole open unit triangle in linear real arithmetic; (B) for every orientation, level, final (k,flips) and every real anchor offset the real post-transform -> get_pentagon_vertices -> get_center -> face_to_ij -> pre-transform puts the centre in the cell's own triangle for every perturbation |e|<=1e-3; (F) filling; (R) the unstubbed real round trip for h<=3 (4) with symbolic perturbation.",
   ref="DESIGN.md §4 C18",
   note="Real arithmetic stands in for IEEE in (G)/(B)/(R) with an explicit symbolic perturbation budget 1e-3 lattice units (actual rounding ~2e-6). The composition of (D),(G),(B) into the end-to-end bijection is an argument in DESIGN.md; (R) exercises the actual composition only for small levels. The 'first k digits identify the level-k ancestor' clause is C07's drift obligation."),
 "C19": dict(
   text="Real u64_to_hex/hex_to_u64 bodies executed on a symbolic 64-bit n (forks over the 16 digit counts) with hex/int/format replaced by contract models over bounded symbolic strings: round trip == n, output alphabet [0-9a-f], no prefix/sign/padding, equal strings <=> equal ids; symbolic strings of every length 1..16 over [0-9a-fA-F] parse to the positional value, case-insensitively, and re-render canonically. The models are validated differentially against the real builtins on every run.",
   ref="DESIGN.md §4 C19",
   note="The builtins hex/int/format are the environment: modelled per the language reference (trusted, validated on pinned values). Strings <= 20 chars. The module's string literals are lifted at source level (symx/strlift.py: literals -> KStr, f-strings -> model) so that %-formatting, str.format, f-strings, join and table indexing with symbolic operands stay symbolic; decimal rendering and bytes.fromhex/int.from_bytes are not modelled and end as INCONCLUSIVE, never as an alarm."),
 "C20": dict(
   text="get_num_cells/get_num_children with BOTH resolutions symbolic in -1..30: closed forms, num_cells(a)*num_children(a,r)==num_cells(r), 12/5/4 per-level product; len(cell_to_children) and len(uncompact) equal get_num_children for a symbolic cell at every resolution (fan-out <= 3); world expansion is duplicate-free, complete and counted by get_num_cells (r<=3); cell_area strictly decreasing, positive, and cell_area(r)*n within 1 ulp of the sphere area for symbolic r, bit-precise IEEE-754 (z3 FP).",
   ref="DESIGN.md §4 C20",
   note="Fan-out of the length clause bounded to 3 levels; expansion of the world cell enumerated for r<=3 and otherwise tied to the count through C06 (children distinct+complete). int->float conversion and division assumed IEEE RNE (CPython)."),
 "C15": dict(
   text="The real AuthalicProjection.forward/inverse run on exact reals with sin/cos of the input replaced by symbols s,c on the unit circle (rational parametrisation for the accuracy queries), so the returned value is phi + polynomial(s,c); z3 nlsat decides over the whole circle: exact oddness, fixed points 0 and +-90, derivative in [0.5,1.5] via dual numbers (strictly increasing), |forward - closed-form| <= 9e-11 and distances <= 4e-13 of forward/inverse to a 12-term reference series computed from the closed-form WGS84 authalic latitude with 60-digit mpmath (independent of the library's tables), from which the 1e-12 round trip follows arithmetically.",
   ref="DESIGN.md §4 C15",
   note="Real-arithmetic semantics: IEEE rounding of ~30 operations and libm's sin/cos are covered by a stated budget (1e-14), not modelled; every counterexample is a candidate that is replayed in floats against the closed form before being reported."),
 "C16": dict(
   text="The schedule is symbolic: every shared mutable container under a5.* is discovered and hooked, line events of the running call are the preemption points, a Boolean per point says 'other threads ran here' and reads of a shared numeric cell written earlier by the call return ite(preempted-in-between, arbitrary fresh value, own value); z3 decides result(schedule, interfering writes) == sequential result. Shared state is discovered, not listed: every module-level list/dict and every numeric attribute of the package's module-level singletons; only state written at run time is havocked. Unit level: all vec3/vec2/quat functions, coordinate transforms, the authalic/gnomonic singletons, PentagonShape with fully symbolic inputs; SphericalPolygonShape/PolyhedralProjection on concrete input sets x symbolic schedule. API level: 42 warm calls under the symbolic schedule plus the same calls from cold and from full caches with two structural obligations (objects complete before publication in shared state; shared caches insert-only). Violations are replayed with a deterministic scheduler that runs a real interfering call at the reported line event. Found the shared scratch-vector defect (fixed in /repo 61b8696).",
   ref="DESIGN.md §4 C16",
   note="Preemption at source-line granularity; interference over-approximated by arbitrary writes to shared numeric cells; object-valued cache slots rely on C17 (key-determined content); libm and symbolic products are uninterpreted functions; rebinding of module globals is outside."),
 "C17": dict(
   text="Histories are handled by making the pre-state symbolic: (i) every shared numeric cell starts as an arbitrary residue and two runs with independent residues must agree (unit targets of C16); (ii) cache keys: two-call histories with independent symbolic (index, reflected, squashed, origin) on get_face_triangle/get_spherical_triangle with compute functions replaced by argument tokens and the cache list by a symbolic store - the second call must return its own key's value; (iii) f(x) then g(y) for the exported hierarchy functions on independent symbolic cells versus g(y) on the restored cold state, all discovered module-level containers snapshotted; (iv) authalic singleton and origin-table two-call histories (symbolic angles / all 12x12 face pairs); (v) aliasing: arguments untouched, results fresh, mutating a result does not affect the next call, on every symbolic path; (vi) concrete differential runs, stated as such: warm-vs-cold API pairs, the same index on all 60x59 (face,segment) pairs, two long call histories (s_to_anchor, lonlat_to_cell) compared with cold values; replays run the last call in a fresh interpreter.",
   ref="DESIGN.md §4 C17",
   note="Two-call histories (insert-only key-determined caches need two keys to collide); caches keyed by rendered strings are outside (str of a symbolic int is not modelled); the triangle-constants cache and the float API pairs are concrete differential runs, stated as such."),
 "C02": dict(
   text="PARTIAL. Decided: (a) the output-range clause for every cell - the real cell_to_lonlat tail (to_lonlat, authalic.inverse, the longitude wrap) runs on symbolic (theta, phi) ranging over everything to_spherical can return, with sin/cos as contract stubs: longitude in [-180,180], latitude in [-90,90] (real arithmetic, 1e-9 slack; IEEE extremes evaluated concretely); (b) the discrete skeleton segment<->quintant/orientation is a mutual inverse for all 12 faces x 5 (real tables, symbolic segment). The index<->lattice part is C18, the id codec C05. Found the unwrapped-longitude defect (fixed in /repo 6f5ae12).",
   ref="DESIGN.md §4 C02",
   note="NOT decided: that lonlat_to_cell(cell_to_lonlat(c)) == c and strict containment of the centre - they need the numeric values of the projection (C13, not applicable); the pole collapse at r>=22 is acos precision. DodecahedronProjection.inverse is replaced by its range contract."),
 "C12": dict(
   text="PARTIAL. Ring structure under every option combination: closed_ring in {omitted,True,False} x segments in {omitted,None,'auto', every integer 1..16} on concrete cells of r in {0,1,2,5,6,7,29} (thorough: all r) at three places, with the projection abstracted by uninterpreted functions with range contracts: vertex count (3 at r=1 else 5)*segments(+1 iff closed), closure, auto rule max(1,2^(6-r)), defaults, one unprojection per edge point, latitudes in range, corners independent of segments, options not mutated; and the real normalize_longitudes on arbitrary symbolic contours (n<=4): same length, fresh list, latitudes untouched, longitudes change by multiples of 360 only, all within 360 of each other.",
   ref="DESIGN.md §4 C12",
   note="NOT decided: simplicity, counter-clockwise orientation, no 180-degree jump, span < 180 - geometry of the unprojected values. Cells are concrete (their face-plane vertices are concrete floats), the values of the unprojection are arbitrary within the contracts."),
 "C07": dict(
   text="PARTIAL (lattice/face-plane level). (L) one-level drift lemma: with the flip state, the parent's last digit and the child's digit as fresh symbols the real _shift_digits/quaternary_to_kj/quaternary_to_flips/kj_to_ij and the real orientation post-transform yield, by solver AllSAT (final unsat = complete), the finite set of displacements anchor(child)-2*anchor(parent) with both cells' (k,flips): 64 per orientation, max planar centre-distance ratio 0.649; the same lemma for depths 2 and 3 (finite local state enumerated completely, ancestor offset and level symbolic) gives the exact maxima 0.923 and 1.076; (S) index reversal commutes with taking the parent for every level up to 28 and all indices; (V) the displacement set enumerated from the real s_to_anchor over ALL indices of levels 2..4 (thorough ..6) is contained in the lemma's set. (N) segments nest: the real _get_pentagon and _lonlat_to_estimate at resolutions 0..3, for every face (fork over the real table), segment and quintant, use the same quintant / segment below and above the first Hilbert resolution. Geometric tail: any descendant's centre is within R3 + R1/4 <= 1.245*sqrt(planar area) of its ancestor's centre.",
   ref="DESIGN.md §4 C07",
   note="NOT decided: the step to the sphere (great-circle distance <= 1.5*sqrt(cell_area)) needs the projection's length distortion <= 1.5/1.245 = 1.20; the premise that a child's upper-level processing equals its parent's is argued from the loop structure and validated on all indices of small levels only; the point corollary depends on C01. Witnesses above the planar limit are candidates replayed on the real API (cell_to_lonlat + haversine)."),
}
NA = {}
for p in props:
    if p["id"] not in CLAIMED:
        NA[p["id"]] = "not built yet (build in progress)"
NA_REASONS = {
 "C01": "float/transcendental pipeline (~40 functions through sin/cos/tan/atan2/acos, 26-sample spiral search, planar containment); no available SMT theory decides numeric containment near measure-zero sets and UF abstraction of libm proves nothing (DESIGN.md §1, §4 C01)",
 "C03": "needs exact numeric values of DodecahedronProjection.inverse on the cell skeleton (vertex coincidence across faces to float tolerance); not encodable for z3/cvc5 (DESIGN.md §1)",
 "C04": "spherical area of unprojected boundary rings: transcendental float arithmetic on computed quantities; not encodable (DESIGN.md §1)",
 "C11": "great-circle distances between unprojected points; float/transcendental, no decision procedure available (DESIGN.md §1)",
 "C13": "1e-11 inverse identities through acos/atan2/sin/slerp of computed quantities; cvc5 transcendental extension ran into the cap on far easier probes (DESIGN.md §1)",
 "C14": "spherical area of images of arbitrary planar polygons under the projection; float/transcendental (DESIGN.md §1)",
}
for k, v in NA_REASONS.items():
    if k in NA:
        NA[k] = v

m = {
 "version": 1,
 "setup_cmd": "./setup.sh",
 "hooks": {"guard": "A5PY_VERIF",
           "enable": "no source hooks: all instrumentation is run-time monkey-patching inside the check process (python3-vt with PYTHONPATH=/repo)",
           "baseline_off_cmd": "cd /repo && /venv/bin/python -m pytest -ra -q -p no:cacheprovider --timeout=900 --continue-on-collection-errors",
           "source_commits": [], "add_only": True},
 "engines": [{"name": "symx", "path": "symx/", "serves_properties": sorted(CLAIMED),
              "kind_free_text": "symbolic execution of the real CPython code on proxy objects (bit-vectors with interval guard, reals, IEEE floats, bounded strings), path exploration by re-execution, function-level merging, z3 (and cvc5 cross-check in the thorough tier)"}],
 "checks": [],
 "notes": "All checks: ./check <ID> [--tier quick|thorough]; exit 0 held / 1 VIOLATION (replayed on the unmodified API) / 3 harness error. Known findings in known_findings.json.",
 "not_applicable": [{"property_id": k, "reason": v} for k, v in sorted(NA.items())],
}
for pid in sorted(CLAIMED):
    c = CLAIMED[pid]
    m["checks"].append({
        "property_id": pid,
        "quick_cmd": "./check %s --tier quick" % pid,
        "thorough_cmd": "./check %s --tier thorough" % pid,
        "evidence_file": "evidence/%s.json" % pid,
        "replay_cmd_template": "./check %s --replay {path}" % pid,
        "engine": "symx",
        "level_claimed": {"category": "other", "text": c["text"], "design_ref": c["ref"]},
        "level_note": c["note"],
        "technique": c.get("technique", TECH),
    })
json.dump(m, open(os.path.join(V, "MANIFEST.json"), "w"), indent=1)
try:
    import jsonschema
    jsonschema.validate(m, json.load(open("/root/.vp/MANIFEST.schema.json")))
    print("manifest valid;", len(m["checks"]), "checks,", len(m["not_applicable"]), "n/a")
except ImportError:
    print("written (jsonschema not available)")
