#!/usr/bin/env python3
"""Adds the hand-written notes to /verif/seeded/*/meta.json (why a change is missed / which other check catches it)."""
import glob
import json

NOTES = {
    "C16-m3": "MISSED. The bounded cache only clear()s itself once 64 triangles are cached; none of the 42 API runs of the check "
              "reaches 64 entries, so the 'shared caches are insert-only' obligation never sees the removal. Needs a history that "
              "fills the cache first (outside the bound: one call per run).",
    "C17-m2": "MISSED. 'same face as last time' fast path with a threshold 0.07 degrees too wide: history-dependent only for query "
              "points in an 8 km sliver just outside a face edge at resolution >= 12; the long-history differential (random points) "
              "does not hit the sliver and the numeric face test is outside what the solver can decide (haversine on computed values).",
    "C19-m1": "MISSED (inconclusive). The digit count is modelled (math.log2 contract stub) but the string is then built by joining "
              "ALPHABET[nibble]: indexing a concrete alphabet with a symbolic nibble forks 16 ways per digit (16^16 paths); the job "
              "runs into its time budget and reports INCONCLUSIVE.",
    "C19-m3": "MISSED (inconclusive). bytes.fromhex / int.from_bytes reject the symbolic string proxy at the C boundary -> Unsupported; "
              "the failing inputs (zero-padded ids of odd length > 16) are also outside the stated string-length bound (<= 16 digits).",
    "C18-m1": "Caught by C17 (long-history differential, concrete) - C18 itself explores every path from the same module state and "
              "cannot see a memo keyed by a rendered string (str of a symbolic int is not modelled).",
    "C07-m1": "Caught by C17 (same-index-on-another-face differential, concrete); not by C07/C18, which do not run _get_pentagon.",
    "C15-m2": "Caught by C17 (singleton two-call history with symbolic angles: solver-decided); C15 analyses single calls.",
    "C15-m3": "Caught by C16 (instance-attribute scratch on the shared authalic singleton: interference window, replayed with the scheduler).",
    "C06-m3": "Caught by C17 (f(x) then g(y) on symbolic cells with container snapshot/restore: the solver finds x != y with equal memo "
              "key); C06 analyses single calls.",
    "C20-m3": "Caught by C06 (children of a resolution-28 cell do not map back to it); C20 only compares counts and lengths.",
    "C17-m1": "Caught by C17's long-history differential (concrete): polar-cap points reach the closest-candidate fallback after earlier calls left candidates behind.",
}
RAN = ("git apply patch.diff in a scratch worktree of /repo HEAD; full pytest; python demo.py with and without the change; "
       "./check <ID> --tier quick with A5_REPO=<worktree> (the checks import and replay against that tree exactly as they do against /repo)")
for d in glob.glob('/verif/seeded/*/meta.json'):
    m = json.load(open(d))
    name = d.split('/')[-2]
    if name in NOTES:
        m['note'] = NOTES[name]
    m['ran'] = RAN
    m['needs_to_manifest'] = m.get('needs')
    m['breaks_property'] = m.get('property')
    json.dump(m, open(d, 'w'), indent=1)
print("ok")
