#!/usr/bin/env python3
"""Adds the hand-written notes to /verif/seeded/*/meta.json (why a change is missed / which other check catches it)."""
import glob
import json

NOTES = {
    "C16-m3": "Caught by C16 since the 'api-hot' jobs were added (all 240 resolution-2 cells are converted under the hooks, the bounded cache "
              "clears itself, the insert-only obligation fails, and the replay scheduler reproduces the KeyError from a full cache). Missed before that.",
    "C02-m2": "Caught by C17 (origin-table two-call histories over all 12x12 face pairs, solver-decided). C02's own skeleton harness explores each "
              "(face, segment) from the same module state and cannot see a memo; an earlier version 'caught' it only through state leaking between paths.",
    "C18-m3": "Caught by C18 (E): the exactness premise of the digit loop (round() is modelled as a +-0.5e-6 contract), witness replayed with "
              "digit-pattern-directed indices at levels 19..28.",
    "C18-m4": "Caught by C07 (child/parent pentagon overlap on the enumerated one-level drift set); C18's round trips are unaffected because the reversed table is derived from the edited one.",
    "C18-m5": "Caught by C07 (drift lemma for the invert_j orientations).",
    "C10-m5": "Caught by C17 (two-call history uncompact2;uncompact2 across the aperture change, solver-decided).",
    "C06-m6": "Caught by C17 (cell_to_children / cell_to_children2 histories on the world cell).",
    "C08-m6": "Caught by C08 (two sibling groups of different faces in one input) and by C17 (compact;compact history).",
    "C20-m6": "Caught by C17 (children histories world / res-0 / res-1 to one target; needs the solver-decided dict lookup for a symbolic probe "
              "key against a concrete stored key).",
    "C19-m4": "MISSED (inconclusive). '%x%08x' % (...) formats through the C-level str.__mod__, which concretises the proxy; float division of a "
              "64-bit value additionally needs the FP theory.",
    "C19-m5": "Caught by C19 after short symbolic strings were made iterable as real characters (forking over the feasible characters for length <= 2).",
    "C19-m6": "Caught by C19 after zero-padded strings of length 17, 18, 20 were added to the parse harness (the first version stopped at 16 digits).",
    "C15-m5": "MISSED (inconclusive). The pole snap branches on the angle itself; the contracts that tie the angle to its sine/cosine make the nlsat "
              "queries run into the time limit.",
    "C15-m6": "Caught by C17 (authalic singleton two-call history, symbolic angles).",
    "C02-m4": "Caught by C17 (origin-table two-call histories).",
    "C02-m6": "MISSED by design: the pole snap keeps the coordinate inside the ranges; that the centre lies strictly inside its cell and maps back "
              "to it needs the numeric projection (the part of C02 that is not decided).",
    "C16-m4": "MISSED (inconclusive). The shared default-argument list is discovered and havocked, but symbolic flips inside the Hilbert digit loop "
              "of a full lonlat_to_cell run do not finish within the job budget.",
    "C16-m6": "MISSED (inconclusive). The in-place remove/insert on the shared search list is flagged (containers must be insert-only / not reordered "
              "at run time) but the replay scheduler with the default interferer did not reproduce a wrong result.",
    "C17-m4": "MISSED. Tie-break between two exactly equidistant face centres decided by the previous call: needs query points on a measure-zero "
              "set that neither the solver (haversine of computed values) nor the random long history reaches.",
    "C17-m5": "Caught by C10 (a resolution-0 cell and the colliding resolution-1 cell in one uncompact list).",
    "C17-m6": "Caught by C17 (history: a call that fails half way, then a valid call; solver-decided on symbolic cells).",
    "C17-m2": "MISSED. 'same face as last time' fast path with a threshold 0.07 degrees too wide: history-dependent only for query "
              "points in an 8 km sliver just outside a face edge at resolution >= 12; the long-history differential (random points) "
              "does not hit the sliver and the numeric face test is outside what the solver can decide (haversine on computed values).",
    "C19-m1": "MISSED (inconclusive). The digit count is modelled (math.log2 contract stub) but the string is then built by joining "
              "ALPHABET[nibble]: indexing a concrete alphabet with a symbolic nibble forks 16 ways per digit (16^16 paths); the job "
              "runs into its time budget and reports INCONCLUSIVE.",
    "C19-m3": "MISSED (inconclusive). bytes.fromhex / int.from_bytes reject the symbolic string proxy at the C boundary -> Unsupported; "
              "the failing inputs (zero-padded ids of odd length > 16) are also outside the stated string-length bound (<= 16 digits).",
    "C18-m1": "Caught by C17 (long-history differential, concrete) - C18 itself explores every path from the same module state and "
              "cannot see a memo keyed by a rendered string (str of a symbolic int is not modelled).",
    "C07-m1": "Caught by C17 (same-index-on-another-face differential, concrete); not by C07/C18, which do not run _get_pentagon.",
    "C15-m2": "Caught by C17 (singleton two-call history with symbolic angles: solver-decided); C15 analyses single calls.",
    "C15-m3": "Caught by C16 (instance-attribute scratch on the shared authalic singleton: interference window, replayed with the scheduler).",
    "C06-m3": "Caught by C17 (f(x) then g(y) on symbolic cells with container snapshot/restore: the solver finds x != y with equal memo "
              "key); C06 analyses single calls.",
    "C20-m3": "Caught by C06 (children of a resolution-28 cell do not map back to it); C20 only compares counts and lengths.",
    "C17-m1": "Caught by C17's long-history differential (concrete): polar-cap points reach the closest-candidate fallback after earlier calls left candidates behind.",
}
RAN = ("git apply patch.diff in a scratch worktree of /repo HEAD; full pytest; python demo.py with and without the change; "
       "./check <ID> --tier quick with A5_REPO=<worktree> (the checks import and replay against that tree exactly as they do against /repo)")
for d in glob.glob('/verif/seeded/*/meta.json'):
    m = json.load(open(d))
    name = d.split('/')[-2]
    if name in NOTES:
        m['note'] = NOTES[name]
    m['ran'] = RAN
    m['needs_to_manifest'] = m.get('needs')
    m['breaks_property'] = m.get('property')
    json.dump(m, open(d, 'w'), indent=1)
print("ok")
